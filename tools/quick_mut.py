#!/usr/bin/env python3
"""usage: quick_mut.py CHECK file 'old' 'new' [file old new ...]  - ad-hoc mutant on a scratch copy, run CHECK quick"""
import os, shutil, subprocess, sys, tempfile
check = sys.argv[1]
d = tempfile.mkdtemp(prefix="qm-", dir="/dev/shm")
try:
    shutil.copytree("/repo/synced_collections", d + "/synced_collections", ignore=shutil.ignore_patterns("__pycache__"))
    a = sys.argv[2:]
    for i in range(0, len(a), 3):
        p = f"{d}/synced_collections/{a[i]}"
        s = open(p).read()
        assert s.count(a[i + 1]) >= 1, (a[i], a[i + 1])
        open(p, "w").write(s.replace(a[i + 1], a[i + 2]))
    r = subprocess.run(["/verif/check", check, os.environ.get("TIER", "quick")], cwd="/verif", capture_output=True, text=True,
                       env=dict(os.environ, VERIF_REPO=d, VERIF_NO_EVIDENCE="1"))
    lines = [l for l in r.stdout.splitlines() if not l.startswith("KNOWN")]
    print("\n".join(l[:300] for l in lines[-4:]))
    print("EXIT", r.returncode)
finally:
    shutil.rmtree(d, ignore_errors=True)
