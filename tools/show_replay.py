#!/usr/bin/env python3
import json, sys
for f in sys.argv[1:]:
    d = json.load(open(f))
    print('##', f.split('/')[-1], d['violation'], d['message'][:300])
    c = d['replay'].get('cfg', {})
    print('   cfg', {k: c.get(k) for k in ('family', 'capmode', 'strategy', 'threading', 'wc')})
    for s in d['replay'].get('steps', []):
        print('    ', json.dumps(s))
