#!/bin/bash
# usage: confirm_mutant.sh <staging-dir>   - confirm a candidate change in a scratch worktree of /repo HEAD:
#   patch applies, demo exits 0 without and 1 with it, the unedited test suite passes with it. Writes <dir>/confirm.json
D=$(realpath "$1"); N=$(basename "$D")
WT=/tmp/cm-$N-$$
git -C /repo worktree add --detach "$WT" HEAD >/dev/null 2>&1 || { echo "$N worktree-failed"; exit 2; }
cd "$WT"
cp "$D/demo.py" ./_demo.py
timeout 300 /venv/bin/python _demo.py >/dev/null 2>&1; d0=$?
applied=git
git apply "$D/patch.diff" 2>/dev/null || { applied=patch; patch -p1 --no-backup-if-mismatch -s < "$D/patch.diff" >/dev/null 2>&1 || applied=FAILED; }
d1=-1; tests="not-run"
if [ "$applied" != "FAILED" ]; then
  timeout 300 /venv/bin/python _demo.py >/dev/null 2>&1; d1=$?
  tests=$(timeout 900 /venv/bin/python -m pytest -q -p no:cacheprovider --timeout=900 -x 2>&1 | tail -1)
  git diff -- synced_collections > "$D/patch.rebased.diff"
fi
cd /; git -C /repo worktree remove --force "$WT"
printf '{"name": "%s", "applied": "%s", "demo_without": %s, "demo_with": %s, "tests_with": "%s", "repo_head": "%s"}\n' "$N" "$applied" "$d0" "$d1" "$tests" "$(git -C /repo rev-parse --short HEAD)" > "$D/confirm.json"
cat "$D/confirm.json"
