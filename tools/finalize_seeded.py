#!/usr/bin/env python3
"""Move confirmed candidates from seeded/_staging/<P>-<X>/ to seeded/<P>-<X>/ with meta.json.
usage: finalize_seeded.py name=detected_by_check[,check2] ..."""
import json, os, shutil, sys
S = '/verif/seeded/_staging'
for arg in sys.argv[1:]:
    name, det = arg.split('=')
    d = f'{S}/{name}'
    c = json.load(open(f'{d}/confirm.json'))
    assert c['applied'] != 'FAILED' and c['demo_without'] == 0 and c['demo_with'] == 1 and c['tests_with'].startswith('578 passed'), c
    out = f'/verif/seeded/{name}'
    os.makedirs(out, exist_ok=True)
    src = f'{d}/patch.rebased.diff' if os.path.exists(f'{d}/patch.rebased.diff') and os.path.getsize(f'{d}/patch.rebased.diff') else f'{d}/patch.diff'
    shutil.copy(src, f'{out}/patch.diff')
    shutil.copy(f'{d}/demo.py', f'{out}/demo.py')
    notes = open(f'{d}/notes.md').read() if os.path.exists(f'{d}/notes.md') else ''
    meta = {"id": name, "breaks_property": name.split('-')[0], "written_by": "fresh sub-agent given only the property text and a scratch worktree",
            "what_and_needs_to_manifest": notes.strip(),
            "confirmed": {"how": "tools/confirm_mutant.sh in a scratch git worktree of /repo HEAD " + c['repo_head'] + ": patch applied (" + c['applied'] + "), demo.py exit 0 without / exit 1 with the change, unedited test suite with the change: " + c['tests_with']},
            "detected_by": [x for x in det.split(',') if x and x != 'NONE'],
            "ran": "tools/try_mutant.sh seeded/" + name + "/patch.diff <CHECK> quick  (scratch copy of /repo/synced_collections under /dev/shm with the patch applied, VERIF_REPO pointing at it; /repo itself untouched)"}
    json.dump(meta, open(f'{out}/meta.json', 'w'), indent=1)
    shutil.rmtree(d)
    print('kept', name, '->', det)
