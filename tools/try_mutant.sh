#!/bin/bash
# usage: try_mutant.sh <patch.diff> <PROP> [tier] [extra env...]  - run a check against a scratch copy of /repo with the patch applied
P=$(realpath "$1"); PROP=$2; TIER=${3:-quick}
D=$(mktemp -d /dev/shm/mut-XXXXXX)
cp -r /repo/synced_collections "$D/" && rm -rf "$D"/synced_collections/__pycache__ "$D"/synced_collections/*/__pycache__
( cd "$D" && patch -p1 --no-backup-if-mismatch -s < "$P" ) || { echo "PATCH-FAILED $P"; rm -rf "$D"; exit 3; }
V=$(cd "$(dirname "$0")/.." && pwd)
( cd $V && VERIF_REPO="$D" VERIF_NO_EVIDENCE=1 ./check "$PROP" "$TIER" ) 2>&1 | grep -v "^\[$PROP\] tier" | tail -${TAILN:-6}
rc=${PIPESTATUS[0]}
rm -rf "$D"
exit $rc
