#!/usr/bin/env python3
"""Regenerate /verif/MANIFEST.json from the table below and the property modules that exist."""
import json, os, subprocess
V = os.path.dirname(os.path.dirname(os.path.abspath(__file__)))
props = [json.loads(l) for l in open(f"{V}/properties.jsonl")]
ENGINE_OF = {"C07": "seqsim+threadsim", "C08": "crashsim", "C09": "threadsim", "C10": "threadsim+seqsim", "C11": "seqsim+threadsim", "C13": "threadsim", "C14": "threadsim", "C19": "warmsim"}
LEVEL = {
 "C01": ("exploration", "Seeded search (fixed run counts per tier) over operation sequences x nesting depth x all 18 concrete classes with an independent backend observer and an executable reference model; a clean batch is evidence for the explored traces, not proof.", "§3 C01"),
 "C02": ("exploration", "Seeded histories with an outside writer and several handles; every read compared with the observer's view; a fault-injecting share (I/O error inside a read: it may raise, never return stale data); sampling, not proof.", "§3 C02, §7.6"),
 "C03": ("exploration", "Differential execution of seeded operation sequences against built-in dict/list (results, exception classes, content, backend). No schedule/fault dimension exists for this property; the simulator contributes world, model, search and shrinking only.", "§3 C03"),
 "C04": ("exploration", "Seeded sequential multi-handle histories against one shared plain model with a stale-handle probe that must be non-zero.", "§3 C04"),
 "C05": ("exploration", "Seeded traces with arbitrary context nesting, two capacity configurations, file-untouched witness (bytes/inode/mtime/listing) and model equality.", "§3 C05"),
 "C06": ("exploration", "Seeded histories over k>=2 objects on one file in a common buffered state with all read/write assignments and exit orders.", "§3 C06"),
 "C07": ("exploration", "Seeded histories with outside-writer conflicts placed before/after first buffered access on modified/read-only/untouched files, both context kinds, forced flushes (set_buffer_capacity, nested buffer_backend entry, capacity restore at an inner exit, inside an operation on another file), unusual prior capacities; plus a threaded part: the flush at the exit of obj.buffered next to an unbuffered writer of the same class on another thread under seeded schedules.", "§3 C07, §7.6"),
 "C08": ("fault_enumeration", "For each sampled save/flush EVERY crash state is enumerated (each executed library line, each file operation, each prefix of the bytes handed to write()); saves and contents are sampled by seed; a sample of predicted crash states is validated against real os._exit kills.", "§2.6, §3 C08"),
 "C09": ("exploration", "Seeded schedules (random / PCT-style / single pre-emption) of real threads under a baton scheduler with pre-emption at every executed library line and lock operation; exact linearizability check of each history (<=9 ops).", "§2.5, §3 C09"),
 "C10": ("fault_enumeration", "Leak half: for each sampled operation every seam call index (open/read/write/close/replace/stat/dumps/loads) is enumerated as a fault point, plus corrupt resource and rejected input; oracle: no simulated lock owned after return/raise and a second simulated thread completes. Deadlock half: seeded schedules with wait-for-cycle detection.", "§3 C10"),
 "C11": ("exploration", "Seeded (entry point x position x invalid kind x depth) after random prefixes; memory and backend walks; plus a threaded scan: every single pre-emption between a valid and a rejected operation on two files (validation and type classification are shared by all threads).", "§3 C11, §7.6"),
 "C12": ("exploration", "Exhaustive small JSON values (<=3 nodes over an 11-leaf alphabet) plus seeded random/boundary values x entry points x classes, read back by a fresh object after a simulated restart.", "§3 C12"),
 "C13": ("exploration", "Seeded schedules of threads mutating inside buffer_backend(capacity) for capacities {huge,0,1,~1 doc,~2 docs}; per-file linearizability of final contents, no buffer errors, size back to 0.", "§3 C13"),
 "C14": ("exploration", "Seeded schedules of reader threads next to writer threads; linearizability including read values; listed open findings (same-object readers) are excluded by generator constraints and replayed as witnesses.", "§3 C14"),
 "C15": ("exploration", "Seeded traces with capacity changes and small capacities; size/capacity oracles after every step incl. exact recomputation from the buffered set; fault-injecting shares: I/O errors in context exits and inside buffered operations, objects dropped + garbage collection inside backend-wide contexts.", "§3 C15, §7.6"),
 "C16": ("exploration", "Seeded traces in which the simulated user mutates every container it passed in or got back; no schedule/fault dimension.", "§3 C16"),
 "C17": ("exploration", "Seeded read-only traces incl. context enter/exit on existing and missing resources; witnesses: audit events, inode/mtime/bytes, directory listing, stub write counters.", "§3 C17"),
 "C18": ("exploration", "Non-perturbing family walk after every step of seeded traces + attribute/item twin programs over protected/internal/method/dunder keys.", "§3 C18"),
 "C19": ("exploration", "Seeded warm-up histories (orderings/subsets of a pool of diverse types incl. multi-category, proxy and transient classes; long histories of rejected values; attempts with a nearly exhausted call stack) vs. the outcome of the same probe in a freshly forked process that handled nothing.", "§2.7, §3 C19, §7.6"),
}
TECH = {"seqsim": "deterministic simulation: seeded operation/fault traces vs executable reference model, independent backend observer",
        "threadsim": "deterministic simulation: baton-scheduled real threads, seeded schedules, linearizability checker, deadlock detection",
        "crashsim": "deterministic simulation: crash-state enumeration of every save (snapshots at each line/file op/write prefix), validated by real kills",
        "warmsim": "deterministic simulation: seeded warm-up histories vs restarted process",
        "threadsim+seqsim": "deterministic simulation: fault-point enumeration at I/O seams + baton-scheduled threads with wait-for-cycle detection",
        "seqsim+threadsim": "deterministic simulation: seeded operation/fault traces vs executable reference model with an independent backend observer + baton-scheduled real threads under seeded / enumerated schedules"}
checks, na = [], []
for p in props:
    pid = p["id"]
    if os.path.exists(f"{V}/sim/props/{pid.lower()}.py"):
        eng = ENGINE_OF.get(pid, "seqsim")
        cat, text, ref = LEVEL[pid]
        checks.append({"property_id": pid, "quick_cmd": f"./check {pid} quick", "thorough_cmd": f"./check {pid} thorough",
                       "evidence_file": f"/verif/evidence/{pid}.json", "replay_cmd_template": f"./check {pid} --replay {{path}}",
                       "engine": eng, "level_claimed": {"category": cat, "text": text, "design_ref": f"DESIGN.md {ref}"},
                       "level_note": "Trusted base: the simulator itself (sim/), CPython 3.12, tmpfs semantics of /dev/shm; Redis/MongoDB/Zarr are in-process stubs; sampling (fixed seeded run counts), not proof.",
                       "technique": TECH[eng]})
    else:
        na.append({"property_id": pid, "reason": "check not built yet (work in progress; planned in DESIGN.md §3)"})
engines = [
 {"name": "seqsim", "path": "sim/engines/seqsim.py", "serves_properties": [c["property_id"] for c in checks if "seqsim" in c["engine"]], "kind_free_text": "single-caller operation/fault traces, reference model, outside writer, restart"},
 {"name": "threadsim", "path": "sim/engines/threadsim.py", "serves_properties": [c["property_id"] for c in checks if "threadsim" in c["engine"]], "kind_free_text": "baton-scheduled real threads, seeded scheduler, linearizability"},
 {"name": "crashsim", "path": "sim/props/c08.py", "serves_properties": [c["property_id"] for c in checks if c["engine"] == "crashsim"], "kind_free_text": "crash states of every save"},
 {"name": "warmsim", "path": "sim/engines/warmsim.py", "serves_properties": [c["property_id"] for c in checks if c["engine"] == "warmsim"], "kind_free_text": "process-history / restart equivalence"}]
fixes = subprocess.run(["git", "-C", "/repo", "log", "--format=%h %s", "b7c0952..HEAD"], capture_output=True, text=True).stdout.strip().splitlines()
m = {"version": 1, "setup_cmd": "./check setup",
     "hooks": {"guard": "SYNCED_COLLECTIONS_VERIF", "enable": "no hooks in /repo are needed: every seam (threading.RLock during import, builtins.open, os.replace/stat, json, uuid, sys.settrace, constructor-injected stores) is reachable from Python; the guard name is reserved and unused",
               "baseline_off_cmd": "cd /repo && /venv/bin/python -m pytest -ra -q -p no:cacheprovider --timeout=900 --continue-on-collection-errors",
               "source_commits": [], "add_only": True},
     "engines": [e for e in engines if e["serves_properties"]], "checks": checks,
     "notes": "Commits in /repo since the pinned snapshot are 'fix:' commits for genuine defects (listed in known_findings.json): " + "; ".join(fixes),
     "not_applicable": na}
json.dump(m, open(f"{V}/MANIFEST.json", "w"), indent=1)
print("checks:", [c["property_id"] for c in checks], "not yet:", [x["property_id"] for x in na])
