#!/bin/bash
# usage: process_round.sh <worktree-prefix> <tag> PROP...   e.g. process_round.sh /tmp/wt2- R2 C05 C08
pre=$1; tag=$2; shift 2
names=""
for p in "$@"; do
  for m in A B C D; do
    if [ -f $pre$p/_out/$m/patch.diff ]; then
      n=$p-$tag$m; mkdir -p /verif/seeded/_staging/$n; cp $pre$p/_out/$m/patch.diff $pre$p/_out/$m/demo.py /verif/seeded/_staging/$n/ 2>/dev/null; cp $pre$p/_out/$m/notes.md /verif/seeded/_staging/$n/ 2>/dev/null; names="$names $n"
    fi
  done
  git -C /repo worktree remove --force $pre$p 2>/dev/null
done
cd /verif/seeded/_staging && (for n in $names; do echo $n; done | xargs -P 4 -I{} /verif/tools/confirm_mutant.sh {} ) 2>&1 | grep -v '"demo_without": 0, "demo_with": 1, "tests_with": "578 passed' 
cd /verif && tools/eval_mutants.sh $names
