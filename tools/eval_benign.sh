#!/bin/bash
# usage: eval_benign.sh [names...]   - run EVERY property's quick check against a scratch copy of /repo with a
# behaviour-preserving (benign) change applied; any VIOLATION / non-zero exit here is a FALSE ALARM of the machinery.
V=$(cd "$(dirname "$0")/.." && pwd)
cd $V/benign
names=${@:-$(ls -d */ | tr -d /)}
for n in $names; do
  D=$(mktemp -d /dev/shm/ben-XXXXXX)
  cp -r /repo/synced_collections "$D/" && find "$D" -name __pycache__ -prune -exec rm -rf {} +
  ( cd "$D" && patch -p1 --no-backup-if-mismatch -s < $V/benign/$n/patch.diff ) || { echo "$n PATCH-FAILED"; rm -rf "$D"; continue; }
  for p in ${PROPS:-C01 C02 C03 C04 C05 C06 C07 C08 C09 C10 C11 C12 C13 C14 C15 C16 C17 C18 C19}; do
    out=$(cd $V && VERIF_REPO="$D" VERIF_NO_EVIDENCE=1 ./check $p quick 2>&1); rc=$?
    v=$(echo "$out" | grep -c '^VIOLATION')
    [ $rc -ne 0 -o $v -ne 0 ] && { echo "$n $p exit=$rc violations=$v"; echo "$out" | grep -v '^KNOWN' | tail -4 | cut -c1-400; } || echo "$n $p ok"
  done
  rm -rf "$D"
done
