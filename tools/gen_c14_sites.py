#!/usr/bin/env python3
"""Regenerate findings/C14-known-sites.json: the failing single-pre-emption sites of the C14 scan scenarios on the CURRENT
tree. Run by hand on the unchanged tree only; the checks never write this file."""
import json, sys
sys.path.insert(0, '/verif')
from concurrent.futures import ProcessPoolExecutor
import multiprocessing as mp
from sim.core import lib, runner


def work(js):
    from sim.props import c14
    lib.load()
    out = []
    for j in js:
        if j % c14.KMAX > c14.first_thread_points(j) + 2:
            continue
        payload, o, v, beyond = runner.run_isolated(c14.scan_one, (j,), timeout=60)
        if v:
            out.append(list(c14.scan_element(payload, o, v)))
    return out


if __name__ == '__main__':
    from sim.props import c14
    idx = list(range(c14.NSCAN))
    chunks = [idx[i:i + 100] for i in range(0, len(idx), 100)]
    sites = set()
    with ProcessPoolExecutor(16, mp_context=mp.get_context('fork')) as ex:
        for r in ex.map(work, chunks):
            sites |= set(tuple(x) for x in r)
    sites = sorted(sites)
    json.dump({"comment": "failing (scenario, direction, semantic phase of the pre-empted first thread = file-system calls made so far | lock kinds held, violation kind, exception classes) of the C14 scan on the unchanged tree at the commit of this file; see sim/props/c14.py", "sites": sites},
              open('/verif/findings/C14-known-sites.json', 'w'), indent=1)
    print(len(sites), 'sites')
    for s in sites:
        print(s)
