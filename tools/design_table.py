#!/usr/bin/env python3
"""Print the markdown table rows (seeded change | what it is | caught by) for the seeded changes whose id matches argv[1]."""
import glob, json, re, sys
pat = sys.argv[1] if len(sys.argv) > 1 else "-R3"
for d in sorted(glob.glob('/verif/seeded/C*')):
    m = json.load(open(d + '/meta.json'))
    if pat not in m['id']:
        continue
    what = re.sub(r'\s+', ' ', m['what_and_needs_to_manifest'])
    what = re.sub(r'^(#+ *)?(Change|C\d\d ?/ ?change) [A-D] ?[-:(]* ?', '', what, flags=re.I)[:230].replace('|', '/')
    det = ', '.join(m['detected_by']) or '**not detected**'
    print(f"| {m['id']} | {what}... | {det} |")
