#!/bin/bash
# usage: eval_mutants.sh [names...]  - run each staged mutant's own property check (quick) on a scratch copy; print a table
cd /verif/seeded/_staging
names=${@:-$(ls -d */ | tr -d /)}
for n in $names; do
  p=${n%%-*}
  patch=$n/patch.rebased.diff; [ -s "$patch" ] || patch=$n/patch.diff
  out=$(TAILN=400 /verif/tools/try_mutant.sh $patch ${CHECK:-$p} quick 2>&1)
  rc=$?
  v=$(echo "$out" | grep -c '^VIOLATION')
  h=$(echo "$out" | grep -c 'HARNESS-ERROR')
  kind=$(echo "$out" | grep -m1 -B1 '^VIOLATION' | head -1 | cut -c1-110)
  echo "$n check=${CHECK:-$p} exit=$rc violations=$v harness_errors=$h :: $kind"
done
