#!/usr/bin/env python3
"""Search for a witness of an open C14 finding (not part of the registered checks)."""
import sys, json, os
sys.path.insert(0, '/verif')
from sim.core import lib, runner
lib.load()
from sim.props import c14
which = sys.argv[1]
found = None
for i in range(3000):
    if which == 'F1':
        p = c14.build(777, i, 'quick', avoid=False, force={"mode": "unbuffered", "nobj": 1, "families": ["JSON"]})
    else:
        p = c14.build(778, i, 'quick', avoid=True, force={"mode": "backend", "families": ["MemoryBufferedJSON"]})
    out, v = runner.run_isolated(c14.run_payload, (p,), timeout=60)
    if v and v['kind'] in ('not_linearizable',) :
        print('found at', i, v['kind'], v['msg'][:300])
        p['strat'] = {"kind": "forced", "choices": out["choices"]}
        v['replay'] = p
        mp = c14.minimise(p, v)
        found = (mp, v)
        break
if not found:
    sys.exit('no witness found')
mp, v = found
out, v2 = runner.run_isolated(c14.run_payload, (mp,), timeout=60)
print('minimised:', json.dumps(mp['progs']), mp['strat'], v2['kind'], v2['msg'][:400])
path = f'/verif/findings/C14-{which}-witness.json'
json.dump({"property": "C14", "violation": v2['kind'], "message": v2['msg'], "replay": mp}, open(path, 'w'), indent=1)
print('wrote', path)
