#!/usr/bin/env python3
"""Print the prompt given to a fresh sub-agent that writes a property-breaking change.
usage: agent_prompt.py <PROPERTY_ID> <WORKTREE> [n_changes]
Only the property's text is given to the agent, nothing else from /verif."""
import json, sys
pid, wt = sys.argv[1], sys.argv[2]
n = int(sys.argv[3]) if len(sys.argv) > 3 else 2
for l in open('/verif/properties.jsonl'):
    p = json.loads(l)
    if p['id'] == pid:
        break
else:
    raise SystemExit('no such property')
import os
_tried = json.load(open('/tmp/tried.json')).get(pid, []) if os.path.exists('/tmp/tried.json') and len(sys.argv) > 4 else []
TRIED = ("\nEarlier attempts by other people for this property (do NOT repeat these or close variants of them - find different mechanisms, different code locations, different triggers; prefer subtle ones that survive casual review):\n" + "\n".join("  * " + t for t in _tried) + "\n") if _tried else ""
print(f"""You are helping to evaluate a verification tool by writing realistic *bugs*. You work ONLY inside the scratch git worktree {wt} (a checkout of the Python library `synced_collections`: dict/list-like collections transparently synced to JSON files / Redis / MongoDB / Zarr, with buffering and thread locks). Do NOT read or touch /verif or /repo or any other /tmp/wt-* directory; everything you need is in {wt}.

Here is a semantic property that the library is supposed to satisfy:

  id: {p['id']}
  title: {p['title']}
  statement: {p['statement']}
  quantified over: {p['quantifier']['text']}
  (why the existing tests cannot settle it: {p['why_tests_cant']})

{TRIED}
Your task: produce {n} DIFFERENT, independent source changes to the library (files under {wt}/synced_collections/ only; do not edit tests) such that each change
  (a) BREAKS the property above (the library, with the change, violates the statement for at least one input / operation sequence / thread interleaving / crash point / history),
  (b) still imports fine and still passes the ENTIRE existing test suite, run exactly like this:
        cd {wt} && /venv/bin/python -m pytest -q -p no:cacheprovider --timeout=900 -x
      (expect '578 passed, 243 skipped'; first check that `cd {wt} && /venv/bin/python -c "import synced_collections; print(synced_collections.__file__)"` prints a path inside {wt}, so that you are really testing your worktree),
  (c) looks like a realistic regression a developer could introduce (a refactoring slip, an 'optimisation', a wrong condition, a forgotten case, two cooperating sites that each look fine alone) - not sabotage that ordinary use would expose at once. It must need something SPECIFIC to manifest: a particular multi-step operation sequence, a particular nesting depth or class family, an unusual input, a particular thread interleaving, a crash or I/O fault at a particular point, or a particular earlier history. Avoid changes that fail on the very first trivial call of the API.
  (d) comes with a small self-contained demonstration program `demo.py` (plain Python run with /venv/bin/python from inside the worktree directory, using temp dirs; for thread interleavings use deterministic forcing such as events/monkeypatched hooks rather than luck; for crashes you may fork and os._exit or monkeypatch os/open to raise at the point) which exits 1 (printing what went wrong) WITH the change and exits 0 WITHOUT it.
The {n} changes should be of different kinds / in different code locations.
The Redis/MongoDB/Zarr client packages are not installed; if you target those backends use small in-process fakes in the demo. There is no network. Do not install anything.

Deliverables - write them into {wt}/_out/ (create it):
  {wt}/_out/A/patch.diff   (output of `git diff` for change A only, relative to the worktree's HEAD, touching only synced_collections/)
  {wt}/_out/A/demo.py
  {wt}/_out/A/notes.md     (3-8 lines: what the change is, which part of the property it breaks, what exactly is needed for it to manifest, and the commands you ran with their results: test suite with change, demo with and without change)
  and the same under {wt}/_out/B/ (and C/ ... if more).
Work on one change at a time: apply it, verify (a)-(d) yourself by actually running the commands, save the deliverables, then `git checkout -- synced_collections` before starting the next (NEVER use `git stash`: the stash is shared by several worktrees of this repository in which other people work at the same time; use `git diff > file` and `git apply` / `git apply -R`). Leave the worktree with NO uncommitted change in synced_collections/ when you are done. Keep your final answer short: for each change one line with its kind and whether all of (a)-(d) were verified.""")
