"""Plain-script reproductions of the defects of DESIGN.md §4 (no simulator). usage: demo.py <case>|all ; exit 1 if the defect shows."""
import sys, os, json, tempfile, threading
sys.path.insert(0, os.environ.get('REPO', '/repo'))
from synced_collections.backends.collection_json import *
from synced_collections.errors import *
d = tempfile.mkdtemp(prefix='defect-', dir='/dev/shm')
n = [0]
def fn():
    n[0] += 1; return os.path.join(d, f'f{n[0]}.json')
def disk(p): return json.load(open(p))
def wr(p, v):
    open(p, 'w').write(json.dumps(v)); st = os.stat(p); os.utime(p, ns=(st.st_atime_ns, st.st_mtime_ns + 10_000_000))
C = {}
def case(f): C[f.__name__] = f; return f

@case
def d01_lt():
    p = fn(); l = JSONList(p); l.append(1)
    return (l < [2]) is not True
@case
def d02_none_merge():
    p = fn(); x = JSONDict(p); x['a'] = {'k': 1}; wr(p, {'a': None})
    bad = x['a'] is not None
    p = fn(); x = JSONDict(p); x['a'] = {'k': 1}; x.update({'a': None}); bad |= disk(p) != {'a': None}
    p = fn(); x = JSONList(p); x.append([1]); wr(p, [None]); bad |= x[0] is not None
    return bad
@case
def d03_nested_clear_clobbers():
    p = fn(); a = JSONDict(p); a['n'] = {'k': 1}; child = a['n']; b = JSONDict(p); b['o'] = 2; child.clear()
    bad = disk(p) != {'n': {}, 'o': 2}
    p = fn(); a = JSONDict(p); a['n'] = {'k': 1}; child = a['n']; b = JSONDict(p); b['o'] = 2; child.reset({'q': 1})
    bad |= disk(p) != {'n': {'q': 1}, 'o': 2}
    return bad
@case
def d04_membuf_clear():
    p = fn(); m = MemoryBufferedJSONDict(p); m['a'] = 1
    with m.buffered:
        m['b'] = 2; m.clear(); inside = m()
    return inside != {} or disk(p) != {}
@case
def d05_membuf_list_reset():
    p = fn(); m = MemoryBufferedJSONList(p); m.extend([1, 2, 3])
    with m.buffered:
        len(m); m.reset([9]); inside = m()
    return inside != [9] or disk(p) != [9]
@case
def d06_membuf_list_nested_ctx():
    p = fn(); m = MemoryBufferedJSONList(p); m.extend([1])
    try:
        with MemoryBufferedJSONList.buffer_backend():
            with m.buffered:
                m.append(4)
    except AttributeError as e:
        return True
    return disk(p) != [1, 4]
@case
def d07_reader_exits_first():
    p = fn(); a = BufferedJSONDict(p); a['z'] = 0; b = BufferedJSONDict(p)
    with a.buffered, b.buffered:
        b['z']; a['y'] = 1
    return disk(p) != {'z': 0, 'y': 1}
@case
def d08_capacity_not_restored():
    p = fn(); a = BufferedJSONDict(p); a['z'] = 0; cap = BufferedJSONDict.get_buffer_capacity()
    try:
        with BufferedJSONDict.buffer_backend(12345):
            a['y'] = 1; wr(p, {'other': 1})
    except BufferedError: pass
    bad = BufferedJSONDict.get_buffer_capacity() != cap
    BufferedJSONDict.set_buffer_capacity(cap)
    return bad
@case
def d09_lock_leak():
    p = fn(); a = JSONDict(p); a['x'] = 1; open(p, 'w').write('{corrupt')
    try: a['y'] = 2
    except ValueError: pass
    open(p, 'w').write('{}')
    ok = []
    def other():
        lk = JSONDict._locks[p]
        if lk.acquire(timeout=1): lk.release(); ok.append(1)
    t = threading.Thread(target=other); t.start(); t.join()
    return not ok
@case
def d10_filename_setter():
    p1, p2 = fn(), fn(); a = JSONDict(p1); b = JSONDict(p1); a['x'] = 1; a.filename = p2
    try: b['y'] = 2
    except KeyError: return True
    return False
@case
def d12_attrlist_dots():
    p = fn(); r = JSONAttrDict(p); r['l'] = []
    try: r['l'].append({'a.b': 1})
    except ValueError: return False
    return True
@case
def d13_require_string_key_lists():
    from synced_collections.validators import require_string_key
    try: require_string_key({'l': [{1: 2}]})
    except TypeError: return False
    return True
@case
def d14_list_pop_atomic():
    # pop must be one locked step: detect by checking it is not the two-step mixin
    import collections.abc
    return JSONList.pop is collections.abc.MutableSequence.pop or JSONList.reverse is collections.abc.MutableSequence.reverse

which = sys.argv[1] if len(sys.argv) > 1 else 'all'
bad = 0
for k, f in C.items():
    if which in ('all', k):
        r = f(); print(k, 'DEFECT' if r else 'ok'); bad |= bool(r)
import shutil; shutil.rmtree(d)
sys.exit(1 if bad else 0)
