"""C18 - nested containers keep the root's family; attribute access equals item access."""
import sys
from . import _seq, _unbuf
from ..core import lib
from ..core import model as M
from ..core.values import stream, digest, jsonable, gen_value, gen_scalar, same, deep, plain
from ..engines import seqgen as G
from ..engines.seqsim import World, Violation, ABSENT

ID = "C18"
ENGINE = "seqsim"
LEVEL = "exploration"
RUNS = {"quick": 60000, "thorough": 300000}
CHUNK = 250
RULE = ("two run kinds. (A) family walk: seeded traces (all classes, 1-2 objects, nested handles, outside-writer "
        "rewrites that change a value's kind) after EVERY step a non-perturbing walk of each object's tree checks "
        "that every container node is an instance of the root family's dict/list class, and mutations through "
        "nested nodes persist (observer == model). (B) attribute/item twins (attribute-access families): the same "
        "seeded program runs in attribute syntax on one resource and item syntax on its twin, keys drawn from "
        "ordinary identifiers, single-underscore names, every protected/internal name (vars() of a fresh object + "
        "the documented protected set), public method names, dunders; oracle: for ordinary keys same results "
        "(AttributeError<->KeyError) and same content at every depth; for internal names obj[n]=x leaves "
        "getattr(obj,n) the internal object, obj() contains n:x, the object keeps working; setattr(obj,n,getattr(obj,n)) "
        "on a protected name creates no item. No schedule/fault dimension. Non-trivial = (A) a kind-changing reload "
        "or nested mutation happened, (B) a protected/underscore/method-name key was used; distinct = step-shape hashes.")
ASSUMPTIONS = ["the protected-name list is the pinned tree's documented set plus vars() of fresh objects",
               "del obj.missing raising KeyError is accepted (statement ambiguous, DESIGN §7)",
               "Redis/MongoDB/Zarr are in-process stubs"]
COMPONENTS = {"real": ["synced_collections (working tree)", "tmpfs file system"], "stub": ["redis", "mongo+bson", "zarr+numcodecs"]}
EXPECT_PROBES = {"quick": ["family_walk_nodes", "protected_item_store"], "thorough": ["family_walk_nodes", "protected_item_store"]}

DOCUMENTED_PROTECTED = ["_data", "_name", "_suspend_sync_", "_load", "_sync", "_root", "_validators", "_all_validators",
                        "_load_and_save", "_suspend_sync", "_supports_threading", "_LoadSaveType", "registry",
                        "_filename", "filename", "_write_concern"]
BUFFERED_PROTECTED = ["buffered", "_is_buffered", "_buffer_lock", "_buffer_context", "_buffered_collections"]
ORDINARY = ["a", "b", "foo", "x1", "_x", "_scratch", "_private_thing", "data", "name", "size"]
METHODS = ["keys", "values", "items", "get", "pop", "update", "clear", "reset", "setdefault", "popitem"]
DUNDERS = ["__foo__", "__x", "__dict__x"]


class WalkWorld(_unbuf.StaleWorld):
    def walk(self, node, fam, path=(), root=None, attrs0=None):
        if root is None:
            root = node
            self._root_attrs = attrs0 if attrs0 is not None else set(vars(node))
        else:
            # a nested node belongs to THIS tree: its root is the object it is reachable from
            if getattr(node, "_root", None) is not root:
                raise Violation("foreign_node_in_tree", f"node at {list(path)} of {type(root).__name__} has _root {type(getattr(node, '_root', None)).__name__} "
                                f"@{id(getattr(node, '_root', None)):#x}, not the object it is reachable from: mutations through it would go to another collection")
            missing = [n for n in self._root_attrs if n not in vars(node) and n not in ("_root_hid",)]
            if missing:
                raise Violation("internal_attribute_missing", f"nested {type(node).__name__} at {list(path)} lacks the instance attributes {sorted(missing)} "
                                f"that its root has: attribute access to these protected names would fall through to the data")
        d = node._data
        items = d.items() if isinstance(d, dict) else enumerate(d)
        for k, v in items:
            self.probe("family_walk_nodes")
            if isinstance(v, (dict, list, tuple)):
                raise Violation("plain_container_inside", f"node at {list(path) + [k]} is a plain {type(v).__name__} inside {type(node).__name__}")
            if isinstance(v, self.SC):
                want = fam["d"] if isinstance(v._data, dict) else fam["l"]
                if type(v) is not want:
                    raise Violation("wrong_family", f"node at {list(path) + [k]} is {type(v).__name__}, expected {want.__name__} under {fam['d'].__name__}/{fam['l'].__name__} root")
                self.walk(v, fam, path + (k,), root)

    def post_op(self, r, ob, h, name, mutated, buffered, pre, changed, lres):
        super().post_op(r, ob, h, name, mutated, buffered, pre, changed, lres)
        fam = self.ns.families[r.family]
        for o in self.objs:
            if o.alive:
                self.walk(o.o, fam, attrs0=getattr(o, "attrs0", None))


def make_cfg(rs, tier):
    cfg = _unbuf.base_cfg(rs, ID)
    cfg["nobj"] = rs.choice([1, 1, 2])
    cfg["p_outside"] = rs.choice([0.0, 0.2, 0.35])
    cfg["oracles"] = ["backend", "result", "children"]
    cfg["p_handle_store"] = rs.choice([0.0, 0.08, 0.15])   # synced nodes (also of another root) stored into the tree
    if lib.load().families[cfg["family"]]["buffered"] and rs.random() < 0.45:
        cfg.update(nobj=1, p_outside=0.0, p_ctx=rs.choice([0.15, 0.3]), p_handle_store=0.0)
    return cfg


# ---- part B -------------------------------------------------------------------------------------------

class TwinWorld(World):
    pass


def twin_run(seed, i, cfg, rg, w, steps):
    ns = lib.load()
    fam = ns.families[cfg["family"]]

    def do(st):
        steps.append(st)
        w.step(st)
    init = {"foo": 1.5, "sub": {"a": 2.5, "_x": 3.5}, "lst": [{"a": 4.5}]}
    for _ in range(2):
        do({"t": "new_res", "family": cfg["family"], "kind": "dict", "init": deep(init)})
    do({"t": "new_obj", "rid": 0, "wc": cfg["wc"]})
    do({"t": "new_obj", "rid": 1, "wc": cfg["wc"]})
    # handles: 0 = attr-syntax root, 1 = item-syntax root; navigate to nested dicts on both
    do({"t": "op", "hid": 0, "name": "getitem", "args": ["sub"], "keep": True, "attr": True})
    do({"t": "op", "hid": 1, "name": "getitem", "args": ["sub"], "keep": True})
    do({"t": "op", "hid": 0, "name": "getitem", "args": ["lst"], "keep": True, "attr": True})
    do({"t": "op", "hid": 1, "name": "getitem", "args": ["lst"], "keep": True})
    do({"t": "op", "hid": 4, "name": "getitem", "args": [0], "keep": True})
    do({"t": "op", "hid": 5, "name": "getitem", "args": [0], "keep": True})
    pairs = [(0, 1), (2, 3), (6, 7)]
    protected = list(DOCUMENTED_PROTECTED) + (BUFFERED_PROTECTED if fam["buffered"] else [])
    for _ in range(cfg["length"]):
        ha, hi = G.pick(rg, pairs)
        roll = rg.random()
        if roll < 0.12:
            # equal-but-differently-typed values through plain assignment (setitem is not a merge path): 1 over True, 2.0 over 2 ...
            key = "typed%d" % rg.randrange(3)
            a, b = G.pick(rg, [(True, 1), (1, True), (0, False), (2, 2.0), (3.0, 3), (1.0, True), (False, 0.0)])
            do({"t": "twin", "ha": ha, "hi": hi, "name": "setitem", "args": [key, a]})
            do({"t": "twin", "ha": ha, "hi": hi, "name": "setitem", "args": [key, b]})
            do({"t": "twin", "ha": ha, "hi": hi, "name": "getitem", "args": [key]})
            do({"t": "twin", "ha": ha, "hi": hi, "name": "delitem", "args": [key]})
            w.probe("typed_pair")
        elif roll < 0.55:
            key = G.pick(rg, ORDINARY)
            name = G.pick(rg, ["setitem", "getitem", "delitem", "setitem"])
            args = [key] + ([gen_value(rg, w.fresh, 1)] if name == "setitem" else [])
            do({"t": "twin", "ha": ha, "hi": hi, "name": name, "args": args})
            if key.startswith("_"):
                w.probe("underscore_key")
        elif roll < 0.8:
            key = G.pick(rg, protected + sorted(vars(w.handles[ha].node)))
            do({"t": "protected", "ha": ha, "hi": hi, "key": key, "value": gen_scalar(rg, w.fresh, allow_special=False)})
        elif roll < 0.9:
            key = G.pick(rg, METHODS)
            do({"t": "methodkey", "hi": hi, "key": key, "value": gen_scalar(rg, w.fresh, allow_special=False)})
        else:
            key = G.pick(rg, DUNDERS)
            do({"t": "op", "hid": hi, "name": "setitem", "args": [key, gen_scalar(rg, w.fresh, allow_special=False)]})
            do({"t": "op", "hid": hi, "name": "getitem", "args": [key]})
    return steps


def _st_twin(self, st):
    ha, hi = self.handles[st["ha"]], self.handles[st["hi"]]
    self.st_op({"t": "op", "hid": st["ha"], "name": st["name"], "args": st["args"], "attr": True})
    self.st_op({"t": "op", "hid": st["hi"], "name": st["name"], "args": st["args"]})


def _st_protected(self, st):
    """Internal/protected name n: item store must not disturb the object; attribute store must address the object."""
    for hid, via_attr in ((st["hi"], False), (st["ha"], True)):
        h = self.handles[hid]
        node = h.node
        n = st["key"]
        sentinel = object()
        before = node.__dict__.get(n, sentinel)
        has = n in node.__dict__ or hasattr(type(node), n)   # a REAL attribute (not an item reached via __getattr__)
        before_attr = getattr(node, n) if has else None
        if not via_attr:
            self.st_op({"t": "op", "hid": hid, "name": "setitem", "args": [n, st["value"]]})
            self.probe("protected_item_store")
            after = node.__dict__.get(n, sentinel)
            if after is not before:
                raise Violation("internals_disturbed", f"obj[{n!r}] = x replaced the instance attribute {n!r} of {type(node).__name__}")
            if has:
                now = getattr(node, n)
                if now is not before_attr and not (callable(now) and callable(before_attr)) and now != before_attr:
                    raise Violation("internals_disturbed", f"obj[{n!r}] = x changed getattr(obj, {n!r})")
            self.st_op({"t": "op", "hid": hid, "name": "getitem", "args": [n]})
            self.st_op({"t": "op", "hid": hid, "name": "call", "args": []})
        else:
            # attribute store of a protected name addresses the object: it must never create an item
            if has and not callable(before_attr):
                value = before_attr
            elif not has:
                value = 12345
            else:
                continue
            r = self.res[self.objs[h.oid].rid]
            res = self.call(lambda: setattr(node, n, value))
            self.probe("protected_attr_store")
            if isinstance(res, M.Raised) and not isinstance(res.exc, AttributeError):
                raise Violation("protected_attr_store_failed", f"setattr(obj, {n!r}, current value) raised {res!r}")
            self.check_backend(what=f"after setattr(obj, {n!r}, <current value>) on a protected name (it must not create an item)")
            self.st_op({"t": "op", "hid": hid, "name": "call", "args": []})
            if not has:
                try:
                    object.__delattr__(node, n)
                except AttributeError:
                    pass


def _st_methodkey(self, st):
    hid, n = st["hi"], st["key"]
    self.st_op({"t": "op", "hid": hid, "name": "setitem", "args": [n, st["value"]]})
    self.st_op({"t": "op", "hid": hid, "name": "getitem", "args": [n]})
    node = self.handles[hid].node
    if not callable(getattr(node, n)):
        raise Violation("method_shadowed", f"after obj[{n!r}] = x the method obj.{n} is no longer callable")
    self.st_op({"t": "op", "hid": hid, "name": "keys", "args": []})
    self.st_op({"t": "op", "hid": hid, "name": "delitem", "args": [n]})


WalkWorld.st_twin = _st_twin
WalkWorld.st_protected = _st_protected
WalkWorld.st_methodkey = _st_methodkey
WorldClass = WalkWorld
setup = _unbuf.setup


def run_one(seed, i, tier):
    ns = lib.load()
    rs = stream(seed, ID, i, "cfg")
    rg = stream(seed, ID, i, "gen")
    if i % 3 != 0:
        cfg = make_cfg(rs, tier)
        cfg["part"] = "A"
        return _seq.run_one(_me, seed, i, tier)
    attr_fams = [f for f in sorted(ns.families) if ns.families[f]["attr"]]
    cfg = {"prop": ID, "part": "B", "family": G.pick(rs, attr_fams), "kind": "dict", "wc": rs.random() < 0.5,
           "threading": rs.random() < 0.7, "length": rs.choice([3, 6, 10]), "oracles": ["backend", "result"],
           "uuid_seed": rs.getrandbits(32)}
    w = WalkWorld(cfg)
    steps, viol = [], None
    try:
        try:
            twin_run(seed, i, cfg, rg, w, steps)
            w.finish()
        except Violation as e:
            viol = {"kind": e.kind, "msg": e.msg}
    finally:
        w.close()
    res = {"viol": None, "probes": w.probes, "stats": w.stats, "steps": w.nsteps, "faults": {}}
    if w.probes.get("protected_item_store") or w.probes.get("underscore_key"):
        res["sig"] = digest([cfg["family"], [(s["t"], s.get("name"), s.get("key"), (s.get("args") or [None])[0] if s["t"] == "twin" else None) for s in steps]])
    if i % 999 == 0 or viol:
        res["sample"] = {"run_index": i, "cfg": cfg, "steps": jsonable(steps[-8:])}
    if viol:
        # steps executed before the violation are not all recorded when the violating step raised inside do()
        viol.update(index=i, replay={"cfg": cfg, "steps": steps, "twin_seed": [seed, i]})
        res["viol"] = viol
    return res


def make_cfg_for_seq(rs, tier):
    return make_cfg(rs, tier)


def gen_step(w, rg):
    cfg = w.cfg
    if cfg.get("p_ctx"):
        # BUFFERED share (one object, no outside writer): the walk runs after every step inside per-object and backend-wide
        # buffered contexts, too - both buffer strategies re-point / rebuild the data tree of an object at enter, first
        # access, flush and exit
        if rg.random() < cfg["p_ctx"]:
            if w.ctx and (len(w.ctx) >= 3 or rg.random() < 0.45):
                return {"t": "exit"}
            w.probe("buffered_ctx_in_walk")
            if rg.random() < 0.5:
                return {"t": "enter", "ctx": "obj", "oid": 0}
            return {"t": "enter", "ctx": "backend", "family": cfg["family"], "kind": cfg["kind"]}
    return _unbuf.gen_step(w, rg)


def signature(w, cfg, steps):
    if not (w.stats.get("ops_nested") or w.probes.get("outside_write")):
        return None
    return _seq.shape_sig(w, cfg, steps, (cfg["kind"],))


_me = sys.modules[__name__]
replay = lambda payload: _seq.replay(_me, payload)  # noqa
minimise = lambda payload, viol: _seq.minimise(_me, payload, viol)  # noqa
