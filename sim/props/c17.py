"""C17 - reading never writes."""
import sys
from . import _seq
from ..core import lib
from ..core import model as M
from ..core.values import gen_value, get_path
from ..engines import seqgen as G

ID = "C17"
ENGINE = "seqsim"
LEVEL = "exploration"
RUNS = {"quick": 80000, "thorough": 400000}
CHUNK = 250
RULE = ("seeded sequences of READ operations only (item access, get, len, iteration, membership, ==/!=/ordering, "
        "repr/str, (), keys/values/items, navigation into children and reads through them) and of buffered-context "
        "enter/exit (obj.buffered / buffer_backend, nested) on EXISTING and MISSING resources, 1-2 objects per "
        "resource, all 18 classes incl. stub stores, with the outside writer active between steps (content edits and "
        "pure re-serialisations of the same content). Oracle across every read step and every context exit: no "
        "write-type audit event (open for writing, rename, remove, truncate, utime) in the run directory, identical "
        "(inode, mtime_ns, size, bytes) for every file, identical directory listing (nothing created), stub write "
        "counters unchanged. Non-trivial = a read happened inside a buffered context, on a missing resource or right "
        "after an outside write; distinct = step-shape hashes.")
ASSUMPTIONS = ["Redis/MongoDB/Zarr are in-process stubs with write counters", "the audit hook sees C-level open/rename/remove/truncate/utime"]
COMPONENTS = {"real": ["synced_collections (working tree)", "tmpfs file system", "sys.addaudithook"], "stub": ["redis", "mongo+bson", "zarr+numcodecs"]}
EXPECT_PROBES = {"quick": ["read_in_buffered_ctx", "read_missing_resource", "read_after_outside_write"],
                 "thorough": ["read_in_buffered_ctx", "read_missing_resource", "read_after_outside_write"]}


from ..engines.seqsim import World as _World, Violation


class W(_World):
    """Resources flagged read-only (cfg ro=[rid..]) must keep their signature across EVERY step, also steps that
    write other resources (e.g. a capacity-forced flush triggered by a write elsewhere)."""

    def ro_sigs(self):
        return {rid: self.file_sig(self.res[rid]) for rid in self.cfg.get("ro", []) if rid < len(self.res)}

    def step(self, st):
        before = self.ro_sigs() if st["t"] not in ("new_res", "outside") else None
        ok = super().step(st)
        if before is not None:
            after = self.ro_sigs()
            for rid, sig in before.items():
                if after.get(rid) != sig:
                    raise Violation("wrote_on_read", f"step {st['t']} {st.get('name', '')} on another resource rewrote/created "
                                    f"the file of resource {rid}, which was only read")
        return ok


WorldClass = W


def make_cfg(rs, tier):
    ns = lib.load()
    fam = G.pick(rs, sorted(ns.families) + ns.buffered_families * 2)
    cfg = {"prop": ID, "family": fam, "kinds": [G.pick(rs, ["dict", "list"]) for _ in range(2)], "wc": rs.random() < 0.5,
            "threading": rs.random() < 0.7, "length": rs.choice([4, 8, 16]), "depth": 2, "uuid_seed": rs.getrandbits(32),
            "nres": rs.choice([1, 2]), "nobj": rs.choice([1, 2]), "p_missing": rs.choice([0.0, 0.5]),
            "p_outside": rs.choice([0.0, 0.2]), "p_ctx": 0.3 if ns.families[fam]["buffered"] else 0.0,
            "oracles": ["nowrite"], "max_ctx": 3, "mixed": False, "ro": [0, 1]}
    if ns.families[fam]["buffered"] and rs.random() < 0.4:
        # mixed configuration: resource 0 is only read, the others are written; small capacities force flushes
        cfg.update(mixed=True, nobj=1, nres=rs.choice([2, 3]), ro=[0], kinds=cfg["kinds"] + [G.pick(rs, ["dict", "list"])],
                   p_outside=0.0, p_missing=rs.choice([0.0, 0.3]), capmode=rs.choice(["huge", "small", "small"]))
        cfg["forced_flush_possible"] = cfg["capmode"] == "small"
        # a read may legitimately trigger the capacity-forced flush of PENDING writes of other files (documented by
        # the library); in this configuration the per-step signature check of the read-only resources decides
        cfg["oracles"] = []
        cfg["strategy"] = ns.families[fam]["strategy"]
    return cfg


def setup(w, rg):
    cfg = w.cfg
    for i in range(cfg["nres"]):
        init = None if rg.random() < cfg["p_missing"] else gen_value(rg, w.fresh, 3, cfg["kinds"][i], 3)
        yield {"t": "new_res", "family": cfg["family"], "kind": cfg["kinds"][i], "init": init}
        if rg.random() < 0.2:
            # a left-over temp file of an earlier crashed save sits next to the (possibly missing) file
            yield {"t": "leftover", "rid": i, "scheme": rg.randrange(4), "content": gen_value(rg, w.fresh, 2, cfg["kinds"][i], 3), "partial": rg.random() < 0.3}
    for i in range(cfg["nres"]):
        for _ in range(cfg["nobj"]):
            yield {"t": "new_obj", "rid": i, "wc": cfg["wc"]}


def gen_step(w, rg):
    cfg = w.cfg
    roll = rg.random()
    if roll < cfg["p_ctx"]:
        if w.ctx and (len(w.ctx) >= cfg["max_ctx"] or rg.random() < 0.45):
            return {"t": "exit"}
        if rg.random() < 0.5:
            return {"t": "enter", "ctx": "obj", "oid": G.pick(rg, [o.oid for o in w.objs if o.alive])}
        return {"t": "enter", "ctx": "backend", "family": cfg["family"], "kind": G.pick(rg, cfg["kinds"][:cfg["nres"]])}
    if roll < cfg["p_ctx"] + cfg["p_outside"]:
        r = G.pick(rg, w.res)
        if r.disk is not None and r.bufstate is None and not any(w.is_buffered(o) for o in w.objs if o.rid == r.rid and hasattr(o.o, "buffered")):
            w._after_outside = True
            if rg.random() < 0.12 and r.store == "file" and not cfg["mixed"]:
                return {"t": "outside", "rid": r.rid, "edit": ["delete"]}
            if rg.random() < 0.4 and r.store == "file":
                return {"t": "outside", "rid": r.rid, "edit": ["reformat", rg.choice([None, 1, 2])]}
            return {"t": "outside", "rid": r.rid, "edit": G.gen_outside_edit(rg, w, r, 2)}
    hs = G.attached_handles(w)
    if not hs:
        return None
    h = G.pick(rg, hs)
    ob = w.objs[h.oid]
    r = w.res[ob.rid]
    if cfg["mixed"] and r.rid not in cfg["ro"]:
        w.probe("write_next_to_readonly")
        return G.gen_op_step(rg, w, h, depth=2, mut_weight=0.8, slices=True)
    if cfg["mixed"] and cfg.get("capmode") == "small" and rg.random() < 0.1:
        from . import _buf
        return {"t": "enter", "ctx": "backend", "family": cfg["family"], "kind": G.pick(rg, cfg["kinds"][:cfg["nres"]]),
                "cap": _buf.small_cap(rg, cfg)} if len(w.ctx) < cfg["max_ctx"] else {"t": "exit"}
    if rg.random() < 0.2:
        st = G.gen_navigate_step(rg, w, h)
        if st:
            return st
    st = G.gen_op_step(rg, w, h, depth=2, mut_weight=0.0, slices=True)
    if hasattr(ob.o, "buffered") and w.is_buffered(ob):
        w.probe("read_in_buffered_ctx")
    if not r.exists:
        w.probe("read_missing_resource")
    if getattr(w, "_after_outside", False):
        w.probe("read_after_outside_write")
        w._after_outside = False
    return st


def signature(w, cfg, steps):
    if not (w.probes.get("read_in_buffered_ctx") or w.probes.get("read_missing_resource") or w.probes.get("read_after_outside_write")):
        return None
    return _seq.shape_sig(w, cfg, steps, tuple(cfg["kinds"]))


_me = sys.modules[__name__]
run_one = lambda seed, i, tier: _seq.run_one(_me, seed, i, tier)  # noqa
replay = lambda payload: _seq.replay(_me, payload)  # noqa
minimise = lambda payload, viol: _seq.minimise(_me, payload, viol)  # noqa
