"""C09 - concurrent writers are linearizable: no update is ever lost."""
import sys
from . import _thr
from ..core import lib
from ..core.values import Fresh, stream, digest, jsonable, get_path, deep
from ..engines import seqgen as G

ID = "C09"
ENGINE = "threadsim"
LEVEL = "exploration"
ISOLATE = True
RUN_TIMEOUT = 60
RUNS = {"quick": 12000, "thorough": 300000}
CHUNK = 100
RULE = ("small multi-threaded programs (2-3 real threads x 1-3 public mutators incl. clear/reset/pop/popitem/reverse/"
        "setdefault/update/+=) on ONE JSON file through the same object, different objects of one class, and nested "
        "child handles taken before the threads start (handle-safe programs); every executed library line and every "
        "lock operation is a pre-emption point decided by a seeded scheduler (uniform random p in {.02,.1,.3}, "
        "PCT-style d in {1,2,3}, single pre-emption at a seeded point; opcode-level pre-emption in a share of "
        "thorough runs); each run in a freshly forked child. Oracle: exact linearizability check of the recorded "
        "history (invoke/return stamped with the scheduler's global step counter; results, exception classes, final "
        "file content) against the reference model; no deadlock; no lock held after a call returned. Non-trivial = >=1 "
        "context switch strictly inside an operation; distinct = (program shape, sequence of (thread, file:line) at "
        "every context switch) hashes.")
ASSUMPTIONS = ["pre-emption at line boundaries (bytecode boundaries only in opcode mode); C-level atomicity of built-in "
               "container operations under the GIL is assumed", "threading support enabled (the default)",
               "programs are handle-safe: no thread removes/reassigns/shifts a position that is a prefix of a handle another operation uses"]
COMPONENTS = {"real": ["synced_collections (working tree)", "real threading.Thread objects (baton-scheduled)", "tmpfs file system"],
              "stub": ["threading.RLock inside the library -> SimRLock (owner/count in Python state)"]}
EXPECT_PROBES = {"quick": ["preempt_in_op", "lock_contended"], "thorough": ["preempt_in_op", "lock_contended"]}


def build(seed, i, tier, readers=0, families=None, ctx=None, with_operands=True):
    ns = lib.load()
    rs = stream(seed, ID, i, "cfg")
    fresh = Fresh()
    fam = G.pick(rs, families or ns.json_families)
    kind = G.pick(rs, ["dict", "list"])
    nobj = rs.choice([1, 2, 2])
    cfg = {"prop": ID, "family": fam, "kind": kind, "wc": rs.random() < 0.5, "threading": True, "oracles": [],
           "uuid_seed": rs.getrandbits(32), "opcode": rs.random() < (0.15 if tier == "thorough" else 0.06)}
    init = _thr.init_content(kind, fresh)
    pre = [{"t": "new_res", "family": fam, "kind": kind, "init": init}]
    rebound = with_operands and nobj >= 2 and rs.random() < 0.12
    late_threading = rs.random() < 0.1
    if late_threading:
        # the objects are constructed while threading support is switched OFF; it is switched on before the threads start
        pre.append({"t": "threading", "on": False})
    for o_ in range(nobj):
        if rebound and o_ == nobj - 1:
            # this object is opened on ANOTHER file first and then pointed at the shared file (obj.filename = ...): it must
            # synchronise with the objects that were bound to the file from the start
            pre.append({"t": "new_res", "family": fam, "kind": kind, "init": _thr.init_content(kind, Fresh())})
            pre.append({"t": "new_obj", "rid": 1, "wc": cfg["wc"]})
            pre.append({"t": "rebind", "oid": o_, "rid": 0})
        else:
            pre.append({"t": "new_obj", "rid": 0, "wc": cfg["wc"]})
    if late_threading:
        pre.append({"t": "threading", "on": True})
    paths = _thr.CHILD_PATHS[kind]
    hpaths = [[] for _ in range(nobj)]
    hobj = list(range(nobj))
    for o in range(nobj):
        base = len(hpaths)
        for j, p in enumerate(paths):
            parent = o if len(p) == 1 else base + (0 if j == 2 else 1)
            pre.append({"t": "op", "hid": parent, "name": "getitem", "args": [p[-1]], "keep": True, "hid_new": base + j})
            hpaths.append(p)
            hobj.append(o)
    ntarget = len(hpaths)
    # OPERAND object: one more object on the same file that no thread uses as a target; its root and children are handed
    # to mutators as live synced ARGUMENTS ({"$handle": i}): a.extend(c), a.update(c['n']), a['x'] = c['l'] ... The
    # argument's content is whatever the file holds when the operation takes effect (found + fixed: extend/+= copied
    # a synced argument before taking the lock).
    opnd = {}
    if with_operands and rs.random() < 0.25:
        pre.append({"t": "new_obj", "rid": 0, "wc": cfg["wc"]})
        oroot = len(hpaths)
        hpaths.append([])
        hobj.append(nobj)
        opnd[()] = oroot
        for j, p in enumerate(paths):
            parent = oroot if len(p) == 1 else oroot + 1 + (0 if j == 2 else 1)
            pre.append({"t": "op", "hid": parent, "name": "getitem", "args": [p[-1]], "keep": True, "hid_new": oroot + 1 + j})
            hpaths.append(p)
            hobj.append(nobj)
            opnd[tuple(p)] = oroot + 1 + j
    shape = rs.choice(["root", "root", "child", "child", "mixed"])
    nthreads = rs.choice([2, 2, 3])
    progs = []
    used = []
    plan = []
    for t in range(nthreads):
        nops = rs.choice([1, 1, 2, 3])
        tp = []
        for _ in range(nops):
            if shape == "root":
                h = rs.randrange(nobj)
            elif shape == "child":
                h = rs.randrange(nobj, ntarget)
            else:
                h = rs.randrange(ntarget)
            tp.append(h)
            used.append(hpaths[h])
        plan.append(tp)
    # operands are chosen before the operations so that handle-safety protects their positions too
    oplan = []
    opnd_thread = rs.randrange(nthreads)   # only ONE thread reads through the operand object (reads through an object
    for t, tp in enumerate(plan):          # that another thread is using are the open finding C14-F1)
        row = []
        for h in tp:
            o = None
            if opnd and t == opnd_thread and rs.random() < 0.6:
                okey = rs.choice(sorted(opnd))
                o = opnd[okey]
                used.append(list(okey))
            row.append(o)
        oplan.append(row)
    for t, tp in enumerate(plan):
        ops = []
        for hi, h in enumerate(tp):
            c = get_path(init, hpaths[h])
            k = "dict" if isinstance(c, dict) else "list"
            if oplan[t][hi] is not None:
                oh = oplan[t][hi]
                ok = "dict" if isinstance(get_path(init, hpaths[oh]), dict) else "list"
                ref = {"$handle": oh}
                if k == "dict":
                    cand = [("setitem", [rs.choice(["x", "y", "a"]), ref]), ("setdefault", [rs.choice(["x", "y"]), ref])]
                    if ok == "dict":
                        cand += [("update", [ref]), ("update", [ref])] + ([("reset", [ref])] if _thr.allowed(hpaths[h], k, "reset", [], used) else [])
                else:
                    cand = [("append", [ref]), ("insert", [rs.randint(0, len(c)), ref])]
                    if ok == "list":
                        cand += [("extend", [ref]), ("extend", [ref]), ("iadd", [ref])]
                cand = [(n, a) for n, a in cand if _thr.allowed(hpaths[h], k, n, a, used)]
                if cand:
                    name, args = cand[rs.randrange(len(cand))]
                    ops.append({"h": h, "name": name, "args": args})
                    continue
            for attempt in range(20):
                name, args = _thr.gen_thread_op(rs, fresh, k, c)
                if _thr.allowed(hpaths[h], k, name, args, used):
                    break
            else:
                name, args = ("setitem", ["x", fresh.int()]) if k == "dict" else ("append", [fresh.int()])
            if rs.random() < 0.07:
                name, args = _thr.gen_rejected_op(rs, k, ns.families[fam]["attr"])
                ops.append({"h": h, "name": name, "args": args, "rejected": True})
                continue
            ops.append({"h": h, "name": name, "args": args})
        progs.append(ops)
    r = rs.random()
    if r < 0.4:
        strat = {"kind": "random", "p": rs.choice([0.02, 0.1, 0.3])}
    elif r < 0.65:
        strat = {"kind": "pct", "d": rs.choice([1, 2, 3]), "est": rs.choice([150, 400, 800])}
    else:
        order = [f"T{x}" for x in range(nthreads)]
        rs.shuffle(order)
        strat = {"kind": "single", "first": order[0], "k": rs.randrange(0, rs.choice([60, 200, 500])), "order": order}
    return {"cfg": cfg, "pre": pre, "progs": progs, "strat": strat, "sched_seed": f"{seed}/{ID}/{i}", "shape": shape,
            "same_object": nobj == 1}


def judge(payload, out):
    """Violation dict or None."""
    if out["abort"] == "deadlock":
        return {"kind": "deadlock", "msg": f"deadlock: {out['deadlock']} | history so far: {_thr.describe_history(out)}"}
    if out["abort"] == "step_cap":
        return {"kind": "harness_step_cap", "msg": "step cap reached"}
    if out["abort"] == "error" or out["errors"]:
        return {"kind": "harness_thread_error", "msg": f"thread raised outside an operation: {out['errors']}"}
    leaked = [r for r in out["history"] if r.get("leaked")]
    if leaked or out["held_after"]:
        return {"kind": "lock_leak", "msg": f"lock still held after an operation returned: {leaked[0]['leaked'] if leaked else out['held_after']}"}
    if out["exit_errors"]:
        return {"kind": "context_error", "msg": f"leaving the buffered context raised {out['exit_errors']}"}
    order = _thr.check_linearizable(out)
    if order is None:
        return {"kind": "not_linearizable", "msg": f"no sequential order explains: {_thr.describe_history(out)} | final={jsonable(out['final'])} init={jsonable(out['init'])}"}
    return None


def run_payload(payload):
    out = _thr.execute(payload["cfg"], payload["progs"], payload["strat"], payload["sched_seed"], payload["pre"], payload.get("ctx"))
    return out, judge(payload, out)


def run_one(seed, i, tier):
    payload = build(seed, i, tier)
    out, v = run_payload(payload)
    res = {"viol": None, "steps": out["steps"], "probes": {"preempt_in_op": out["preempt_in_op"], "lock_contended": out["contended"],
                                                             "switches": out["switches"]},
           "faults": {"preemption": out["switches"]}, "stats": {"ops": len(out["history"])}}
    res["logd"] = digest(jsonable([payload["progs"], out["choices"], _thr.describe_history(out), out["final"]]))
    if out["preempt_in_op"]:
        res["sig"] = digest([payload["shape"], [[(o["h"], o["name"]) for o in p] for p in payload["progs"]], out["switch_sites"]])
    if i % 499 == 0 or v:
        res["sample"] = {"run_index": i, "programs": jsonable(payload["progs"]), "strategy": payload["strat"], "switches": out["switches"],
                         "history": _thr.describe_history(out)[:1500]}
    if v:
        rp = dict(payload)
        rp["strat"] = {"kind": "forced", "choices": out["choices"]}
        v.update(index=i, replay=rp)
        res["viol"] = v
    return res


def replay(payload):
    return _thr.witness_replay(run_payload, payload, RUN_TIMEOUT)


def minimise(payload, viol):
    """Drop operations / threads while the same violation class is found again under the forced schedule or a small
    seeded search over single-pre-emption schedules; then prefer a single-pre-emption schedule."""
    from ..core.runner import run_isolated
    kind = viol["kind"]

    def fails(p):
        try:
            out, v = run_isolated(run_payload, (p,), timeout=RUN_TIMEOUT)
        except Exception:
            return None
        return out if v is not None and v["kind"] == kind else None

    def search(p, tries=40):
        """Find a failing schedule for programs p['progs'] (forced first, then seeded single pre-emptions)."""
        o = fails(p)
        if o is not None:
            return dict(p, strat={"kind": "forced", "choices": o["choices"]})
        n = len(p["progs"])
        rs = stream("min", p["sched_seed"], str(p["progs"]))
        for _ in range(tries):
            order = [f"T{x}" for x in range(n)]
            rs.shuffle(order)
            q = dict(p, strat={"kind": "single", "first": order[0], "k": rs.randrange(0, 400), "order": order})
            o = fails(q)
            if o is not None:
                return dict(q, strat={"kind": "forced", "choices": o["choices"]})
        return None
    best = search(payload, tries=0) or payload
    changed = True
    while changed:
        changed = False
        progs = best["progs"]
        for ti in range(len(progs)):
            for oi in range(len(progs[ti])):
                cand = [list(p) for p in progs]
                del cand[ti][oi]
                cand = [p for p in cand if p]
                if len(cand) < 1:
                    continue
                q = search(dict(best, progs=cand), tries=25)
                if q is not None:
                    best = q
                    changed = True
                    break
            if changed:
                break
    # prefer a readable single-pre-emption schedule
    n = len(best["progs"])
    rs = stream("min2", best["sched_seed"])
    for _ in range(60):
        order = [f"T{x}" for x in range(n)]
        rs.shuffle(order)
        q = dict(best, strat={"kind": "single", "first": order[0], "k": rs.randrange(0, 300), "order": order})
        if fails(q) is not None:
            return q
    return best
