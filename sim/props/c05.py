"""C05 - buffered mode is transparent and defers all writes to the outermost exit."""
import sys
from . import _seq, _buf

ID = "C05"
ENGINE = "seqsim"
LEVEL = "exploration"
RUNS = {"quick": 80000, "thorough": 400000}
CHUNK = 250
RULE = ("seeded traces over 1-3 JSON files with ONE root object each (+ nested handles), {Buffered, MemoryBuffered} x "
        "{Dict, List, AttrDict, AttrList}, every operation incl. clear/reset/update/nested-child mutators, interleaved "
        "with arbitrary well-nested enter/exit of obj.buffered and Class.buffer_backend([capacity]) (depth<=4, both "
        "kinds in any order). Oracles: (a) every result equals the buffering-unaware reference model; (b) with the "
        "default capacity the file is untouched (bytes, inode, mtime, no new temp file) from the moment its object "
        "becomes buffered until the exit that leaves it unbuffered; (c) at that exit the observer equals the model; "
        "(d) exits raise nothing. Small capacities (separate configuration) relax only (b): after every step each "
        "file holds its previous content or the model's current content (forced flush). Two further configurations: TWIN - the same program also runs on an unbuffered twin "
        "object of the plain JSON class and every result / the visible content must agree, also for rejected and "
        "partially applied operations; BIG-CAPACITY - tiny class capacity, outermost buffer_backend(huge), plain contexts "
        "nested inside: still nothing may be written early. Fault kind: forced_flush, rejected_input. "
        "Non-trivial = a mutator ran while buffered inside >=1 context; distinct = step-shape hashes.")
ASSUMPTIONS = ["one root object per file (mixed buffering states of several objects on one file are excluded by the "
               "library's own warning; shared state is C06)", "no outside writer (that is C07)"]
COMPONENTS = {"real": ["synced_collections (working tree)", "tmpfs file system", "os.stat metadata"], "stub": []}
EXPECT_PROBES = {"quick": ["file_entered_buffer", "twin_rejected_op", "bigcap_plain_nested"],
                 "thorough": ["file_entered_buffer", "forced_flush_observed", "twin_rejected_op", "bigcap_plain_nested"]}


def make_cfg(rs, tier):
    cfg = _buf.base_cfg(rs, ID)
    cfg["oracles"] = ["backend", "result", "frozen"]
    r = rs.random()
    if r < 0.2:
        # TWIN configuration: the same program also runs on an UNBUFFERED twin (the plain JSON class of the same kind on
        # another file); results must agree - also for rejected / partially applied operations, whose outcome the
        # reference model does not define
        cfg.update(twin=True, nres=1, capmode="huge", forced_flush_possible=False)
    elif r < 0.24:
        # WEAK-CHECKSUM configuration: the buffered edits keep the length of the encoded document and are arranged to
        # collide under simple checksums (byte sum: a permutation; Adler/Fletcher-style weighted sums: +1,-2,+1 on equally
        # spaced digits; XOR: two equal changes).  "Nothing changed" must be decided on the content, whatever the digest.
        cfg.update(weak=rs.choice(["perm", "adler", "xor"]), nres=1, capmode="huge", forced_flush_possible=False)
    elif r < 0.26:
        # EXACT-FIT configuration: the capacity is set to exactly the current buffer size (as the library reports it), then a
        # modification keeps the encoded size the same: the data still fits, so nothing may be written before the exit
        cfg.update(exactfit=True, nres=1, capmode="huge", forced_flush_possible=False)
    elif r < 0.39:
        # BIG-CAPACITY configuration: the class capacity is tiny, every outermost backend context asks for a huge one,
        # plain contexts nest inside it; nothing may be written before the outermost exit
        cfg.update(capmode="bigcap", forced_flush_possible=False)
    return cfg


def setup(w, rg):
    cfg = w.cfg
    if cfg.get("twin"):
        from ..core import lib
        from ..core.values import gen_value
        init = gen_value(rg, w.fresh, 2, cfg["kinds"][0], 3)
        twin_family = "JSONAttr" if lib.load().families[cfg["family"]]["attr"] else "JSON"
        yield {"t": "new_res", "family": cfg["family"], "kind": cfg["kinds"][0], "init": init}
        yield {"t": "new_res", "family": twin_family, "kind": cfg["kinds"][0], "init": init}
        yield {"t": "new_obj", "rid": 0, "wc": cfg["wc"]}
        yield {"t": "new_obj", "rid": 1, "wc": cfg["wc"]}
        return
    if cfg.get("exactfit"):
        kind = cfg["kinds"][0]
        init = [44, 55] if kind == "list" else {"a": 44, "b": 55}
        yield {"t": "new_res", "family": cfg["family"], "kind": kind, "init": init}
        yield {"t": "new_obj", "rid": 0, "wc": cfg["wc"]}
        key = 1 if kind == "list" else "b"
        w._script = [{"t": "enter", "ctx": "backend", "family": cfg["family"], "kind": kind},
                     {"t": "op", "hid": 0, "name": "setitem", "args": [key, 66]},
                     {"t": "setcap_cur", "family": cfg["family"], "kind": kind},
                     {"t": "op", "hid": 0, "name": "setitem", "args": [key, 77]},
                     {"t": "op", "hid": 0, "name": "getitem", "args": [key]},
                     {"t": "exit"},
                     {"t": "setcap_keep", "family": cfg["family"], "kind": kind, "n": 32 * 2 ** 20}]
        w._script_only = True
        w.probe("exact_fit_scenario")
        return
    if cfg.get("weak"):
        kind = cfg["kinds"][0]
        pat = {"perm": ([4, 5, 6], [6, 4, 5]), "adler": ([4, 6, 4], [5, 4, 5]), "xor": ([4, 4, 7], [6, 6, 7])}[cfg["weak"]]
        keys = ["a", "b", "c"]
        init = list(pat[0]) if kind == "list" else dict(zip(keys, pat[0]))
        yield {"t": "new_res", "family": cfg["family"], "kind": kind, "init": init}
        yield {"t": "new_obj", "rid": 0, "wc": cfg["wc"]}
        w._script = [{"t": "enter", "ctx": "obj", "oid": 0} if rg.random() < 0.5 else {"t": "enter", "ctx": "backend", "family": cfg["family"], "kind": kind}]
        if rg.random() < 0.5:
            w._script.append({"t": "op", "hid": 0, "name": "len", "args": []})
        order = [0, 1, 2]
        rg.shuffle(order)
        for j in order:
            if pat[0][j] != pat[1][j]:
                w._script.append({"t": "op", "hid": 0, "name": "setitem", "args": [j if kind == "list" else keys[j], pat[1][j]]})
        w._script.append({"t": "exit"})
        w.probe("weak_checksum_scenario")
        return
    yield from _buf.setup(w, rg)
    if cfg["capmode"] == "bigcap":
        for k in sorted(set(cfg["kinds"][:cfg["nres"]])):
            yield {"t": "setcap", "family": cfg["family"], "kind": k, "n": 0 if cfg["strategy"] == "memory" else 1}


BIG = 10 ** 9


def gen_step(w, rg):
    cfg = w.cfg
    if getattr(w, "_script", None):
        return w._script.pop(0)
    if getattr(w, "_script_only", False):
        return None
    if cfg.get("twin"):
        return gen_twin_step(w, rg)
    if cfg["capmode"] != "bigcap":
        return _buf.gen_step(w, rg)
    # bigcap: contexts only inside an outermost buffer_backend(BIG)
    from ..engines import seqgen as G
    if rg.random() < cfg["p_ctx"]:
        if w.ctx and (len(w.ctx) >= cfg["max_ctx"] or rg.random() < 0.45):
            return {"t": "exit"}
        kinds = sorted(set(cfg["kinds"][:cfg["nres"]]))
        if not w.ctx:
            w.probe("bigcap_outer_ctx")
            return {"t": "enter", "ctx": "backend", "family": cfg["family"], "kind": G.pick(rg, kinds), "cap": BIG}
        outer_kinds = {c["cls"] for c in w.ctx if c["kind"] == "backend"}
        if rg.random() < 0.5:
            obs = [o for o in w.objs if o.alive and o.cls in outer_kinds]
            if obs:
                return {"t": "enter", "ctx": "obj", "oid": G.pick(rg, obs).oid}
        k = G.pick(rg, kinds)
        st = {"t": "enter", "ctx": "backend", "family": cfg["family"], "kind": k}
        if w.cls_of(cfg["family"], k) not in outer_kinds or rg.random() < 0.4:
            st["cap"] = BIG
        else:
            w.probe("bigcap_plain_nested")
        return st
    return _buf.gen_step(w, rg) if False else _op_only(w, rg)


def _op_only(w, rg):
    from ..engines import seqgen as G
    cfg = w.cfg
    hs = G.attached_handles(w)
    if not hs:
        return None
    nested = [h for h in hs if h.path]
    h = G.pick(rg, nested) if nested and rg.random() < 0.4 else G.pick(rg, hs)
    if rg.random() < 0.15:
        st = G.gen_navigate_step(rg, w, h)
        if st:
            return st
    return G.gen_op_step(rg, w, h, depth=cfg["depth"], mut_weight=cfg["p_mut"], slices=True)


# ---- twin configuration -------------------------------------------------------------------------------------------

BAD_ARGS = {"dict": [("update", [{"$keydict": [["good1", 71], [987654, 1], ["good2", 72]]}]), ("update", [{"g": 73, "bad": {"$obj": "object"}}]),
                     ("setitem", ["bad", {"$obj": "set"}]), ("reset", [{"$keydict": [["keep", 74], [{"$none": 0}, 1]]}]),
                     ("setdefault", ["newkey", {"$obj": "complex"}]), ("update_pairs", [[["p1", 75], ["p2"]]])],
            "list": [("extend", [[76, {"$obj": "object"}]]), ("iadd", [[{"$keydict": [[987654, 1]]}, 77]]), ("append", [{"$obj": "set"}]),
                     ("reset", [[78, {"$obj": "object"}]]), ("insert", [0, {"$obj": "complex"}]), ("setitem", [{"$slice": [0, 1, None]}, [79, {"$obj": "object"}]])]}


def gen_twin_step(w, rg):
    from ..engines import seqgen as G
    cfg = w.cfg
    if not hasattr(w, "twin_of"):
        w.twin_of = {0: 1}
    roll = rg.random()
    if roll < cfg["p_ctx"]:
        if w.ctx and (len(w.ctx) >= cfg["max_ctx"] or rg.random() < 0.45):
            return {"t": "exit"}
        if rg.random() < 0.5:
            return {"t": "enter", "ctx": "obj", "oid": 0}
        return {"t": "enter", "ctx": "backend", "family": cfg["family"], "kind": cfg["kinds"][0]}
    hs = [h for h in G.attached_handles(w) if h.oid == 0 and h.hid in w.twin_of and w.twin_of[h.hid] < len(w.handles)
          and w.handles[w.twin_of[h.hid]] is not None and w.handles[w.twin_of[h.hid]].state == "attached"]
    if not hs:
        return None
    h = G.pick(rg, hs)
    if roll < cfg["p_ctx"] + 0.12:
        name, args = G.pick(rg, BAD_ARGS[h.kind])
        w.probe("twin_rejected_op")
        return {"t": "twinbad", "hid": h.hid, "thid": w.twin_of[h.hid], "name": name, "args": args}
    if rg.random() < 0.15:
        st = G.gen_navigate_step(rg, w, h)
    else:
        st = G.gen_op_step(rg, w, h, depth=cfg["depth"], mut_weight=cfg["p_mut"], slices=True)
    if st is None or st["name"] == "popitem":   # popitem may legitimately pop different items on the two objects
        return None
    return {"t": "twinop", "a": st, "thid": w.twin_of[h.hid]}


from ..engines.seqsim import World as _World, Violation as _Violation  # noqa: E402
from ..core import model as _M  # noqa: E402


class W(_World):
    def st_twinop(self, st):
        a = st["a"]
        if not hasattr(self, "twin_of"):
            self.twin_of = {0: 1}
        self.st_op(a)
        b = dict(a, hid=st["thid"])
        if a.get("keep"):
            b["hid_new"] = st.get("thid_new")
        self.st_op(b)
        if a.get("keep"):
            st["thid_new"] = b.get("hid_new")
            if a.get("hid_new") is not None and b.get("hid_new") is not None:
                self.twin_of[a["hid_new"]] = b["hid_new"]
        self.probe("twin_ops")

    def st_twinbad(self, st):
        """An operation whose outcome the model does not define (rejected, possibly partially applied): the buffered
        object and its unbuffered twin must behave identically."""
        from ..core.values import same, deep, jsonable
        h0, h1 = self.handles[st["hid"]], self.handles[st["thid"]]
        args0, args1 = _M.dec(st["args"], None), _M.dec(st["args"], None)
        r0 = _M.result_plain(st["name"], self.lib_op(h0.node, st["name"], args0), self.SC)
        r1 = _M.result_plain(st["name"], self.lib_op(h1.node, st["name"], args1), self.SC)
        what = f"{st['name']}{jsonable(st['args'])} at {h0.path}"
        if isinstance(r0, _M.Raised) != isinstance(r1, _M.Raised) or (isinstance(r0, _M.Raised) and r0.cls is not r1.cls):
            raise _Violation("buffered!=unbuffered", f"{what}: buffered object gives {r0!r}, unbuffered twin {r1!r}")
        ob0, ob1 = self.objs[h0.oid], self.objs[h1.oid]
        c0 = _M.result_plain("call", self.lib_op(ob0.o, "call", []), self.SC)
        c1 = _M.result_plain("call", self.lib_op(ob1.o, "call", []), self.SC)
        if isinstance(c0, _M.Raised) or isinstance(c1, _M.Raised) or not same(c0, c1):
            raise _Violation("buffered!=unbuffered", f"after {what}: buffered object shows {jsonable(c0)!r}, unbuffered twin shows {jsonable(c1)!r}")
        res0, res1 = self.res[ob0.rid], self.res[ob1.rid]
        res0.model, res1.model = deep(c1), deep(c1)
        res1.disk, res1.exists, res0.exists = deep(c1), True, True
        if self.is_buffered(ob0):
            self.buffered_touch(res0, ob0, True, True)
        else:
            res0.disk = deep(c1)
        for h in self.handles:
            if h is not None and h.path and h.state == "attached":
                h.state = "dropped"
        self.check_frozen(f"rejected op {st['name']}")
        self.check_backend(what="after a rejected operation (twin configuration)")


WorldClass = W


def signature(w, cfg, steps):
    if not w.probes.get("file_entered_buffer"):
        return None
    return _seq.shape_sig(w, cfg, steps, (cfg["capmode"], cfg["strategy"]))


_me = sys.modules[__name__]
run_one = lambda seed, i, tier: _seq.run_one(_me, seed, i, tier)  # noqa
replay = lambda payload: _seq.replay(_me, payload)  # noqa
minimise = lambda payload, viol: _seq.minimise(_me, payload, viol)  # noqa
