"""C05 - buffered mode is transparent and defers all writes to the outermost exit."""
import sys
from . import _seq, _buf

ID = "C05"
ENGINE = "seqsim"
LEVEL = "exploration"
RUNS = {"quick": 80000, "thorough": 400000}
CHUNK = 250
RULE = ("seeded traces over 1-3 JSON files with ONE root object each (+ nested handles), {Buffered, MemoryBuffered} x "
        "{Dict, List, AttrDict, AttrList}, every operation incl. clear/reset/update/nested-child mutators, interleaved "
        "with arbitrary well-nested enter/exit of obj.buffered and Class.buffer_backend([capacity]) (depth<=4, both "
        "kinds in any order). Oracles: (a) every result equals the buffering-unaware reference model; (b) with the "
        "default capacity the file is untouched (bytes, inode, mtime, no new temp file) from the moment its object "
        "becomes buffered until the exit that leaves it unbuffered; (c) at that exit the observer equals the model; "
        "(d) exits raise nothing. Small capacities (separate configuration) relax only (b): after every step each "
        "file holds its previous content or the model's current content (forced flush). Fault kind: forced_flush. "
        "Non-trivial = a mutator ran while buffered inside >=1 context; distinct = step-shape hashes.")
ASSUMPTIONS = ["one root object per file (mixed buffering states of several objects on one file are excluded by the "
               "library's own warning; shared state is C06)", "no outside writer (that is C07)"]
COMPONENTS = {"real": ["synced_collections (working tree)", "tmpfs file system", "os.stat metadata"], "stub": []}
EXPECT_PROBES = {"quick": ["file_entered_buffer"], "thorough": ["file_entered_buffer", "forced_flush_observed"]}


def make_cfg(rs, tier):
    cfg = _buf.base_cfg(rs, ID)
    cfg["oracles"] = ["backend", "result", "frozen"]
    return cfg


setup = _buf.setup
gen_step = _buf.gen_step


def signature(w, cfg, steps):
    if not w.probes.get("file_entered_buffer"):
        return None
    return _seq.shape_sig(w, cfg, steps, (cfg["capmode"], cfg["strategy"]))


_me = sys.modules[__name__]
run_one = lambda seed, i, tier: _seq.run_one(_me, seed, i, tier)  # noqa
replay = lambda payload: _seq.replay(_me, payload)  # noqa
minimise = lambda payload, viol: _seq.minimise(_me, payload, viol)  # noqa
