"""Shared generator for the buffered-mode properties (C05, C06, C15, C17)."""
from ..core import lib
from ..core.values import gen_value
from ..engines import seqgen as G

HUGE = None


def base_cfg(rs, pid, nres=None, nobj=1):
    ns = lib.load()
    fam = G.pick(rs, ns.buffered_families)
    strategy = ns.families[fam]["strategy"]
    capmode = rs.choice(["huge", "huge", "huge", "small"])
    return {"prop": pid, "family": fam, "strategy": strategy, "wc": rs.random() < 0.5, "threading": rs.random() < 0.7,
            "length": rs.choice([6, 12, 20, 30]), "depth": rs.choice([1, 2]), "uuid_seed": rs.getrandbits(32),
            "nres": nres or rs.choice([1, 2, 3]), "nobj": nobj, "kinds": [G.pick(rs, ["dict", "list"]) for _ in range(3)],
            "capmode": capmode, "forced_flush_possible": capmode == "small",
            "p_ctx": rs.choice([0.2, 0.35]), "p_mut": rs.choice([0.4, 0.7]), "max_ctx": 4,
            "p_dropgc": rs.choice([0.0, 0.0, 0.06])}


def setup(w, rg):
    cfg = w.cfg
    for i in range(cfg["nres"]):
        # (fault-injecting configurations need existing files: with a missing file the library keeps its in-memory state by design)
        init = gen_value(rg, w.fresh, 2, cfg["kinds"][i], 3) if (rg.random() < 0.7 or cfg.get("p_fault")) else None
        yield {"t": "new_res", "family": cfg["family"], "kind": cfg["kinds"][i], "init": init}
    for i in range(cfg["nres"]):
        for _ in range(cfg["nobj"]):
            yield {"t": "new_obj", "rid": i, "wc": cfg["wc"]}


def small_cap(rg, cfg):
    if cfg["strategy"] == "memory":
        return rg.choice([0, 1, 2])
    return rg.choice([0, 1, 10, 30, 60, 120])


def gen_ctx_step(w, rg, allow_obj=True, allow_backend=True, exit_bias=0.45):
    cfg = w.cfg
    if w.ctx and (len(w.ctx) >= cfg["max_ctx"] or rg.random() < exit_bias):
        return {"t": "exit"}
    choices = []
    if allow_obj:
        choices.append("obj")
    if allow_backend:
        choices.append("backend")
    kind = G.pick(rg, choices)
    if kind == "obj" and not any(o.alive for o in w.objs):
        kind = "backend" if allow_backend else None     # every object was dropped (drop_gc): only exits / backend contexts remain
        if kind is None:
            return {"t": "exit"} if w.ctx else None
    if kind == "obj":
        obs = [o for o in w.objs if o.alive]
        return {"t": "enter", "ctx": "obj", "oid": G.pick(rg, obs).oid}
    k = G.pick(rg, sorted(set(cfg["kinds"][:cfg["nres"]])))
    st = {"t": "enter", "ctx": "backend", "family": cfg["family"], "kind": k}
    if cfg["capmode"] == "small" and rg.random() < 0.6:
        st["cap"] = small_cap(rg, cfg)
    return st


def gen_step(w, rg, reads=None, muts=None, mut_weight=None):
    cfg = w.cfg
    roll = rg.random()
    if roll < cfg["p_ctx"]:
        return gen_ctx_step(w, rg)
    if cfg["capmode"] == "small" and roll < cfg["p_ctx"] + 0.05:
        k = G.pick(rg, sorted(set(cfg["kinds"][:cfg["nres"]])))
        return {"t": "setcap", "family": cfg["family"], "kind": k, "n": small_cap(rg, cfg)}
    if cfg.get("p_dropgc") and rg.random() < cfg["p_dropgc"]:
        cand = [o for o in w.objs if o.alive and o.depth == 0 and w.backend_depth.get(o.cls)]
        if cand:
            # the object goes out of scope inside the backend-wide context and the garbage collector runs
            return {"t": "drop_gc", "oid": G.pick(rg, cand).oid}
    hs = G.attached_handles(w)
    if not hs:
        return gen_ctx_step(w, rg) if w.ctx else None
    nested = [h for h in hs if h.path]
    h = G.pick(rg, nested) if nested and rg.random() < 0.4 else G.pick(rg, hs)
    if rg.random() < 0.15:
        st = G.gen_navigate_step(rg, w, h)
        if st:
            return st
    return G.gen_op_step(rg, w, h, depth=cfg["depth"], mut_weight=cfg["p_mut"] if mut_weight is None else mut_weight,
                         slices=True, reads=reads, muts=muts)
