"""C11 - forbidden data never gets in, through any entry point at any depth."""
import sys
from . import _seq
from ..core import lib
from ..core import model as M
from ..core.values import gen_value, stream, deep, digest, jsonable, plain, same, get_path, kind_of
from ..engines import seqgen as G
from ..engines.seqsim import World, Violation, ABSENT

ID = "C11"
ENGINE = "seqsim"
LEVEL = "exploration"
RUNS = {"quick": 40000 + 6 * 2 * 900, "thorough": 300000 + 6 * 2 * 900}
CHUNK = 250
RULE = ("(entry point x target position x invalid item kind x position of the invalid item inside an otherwise valid "
        "argument, depth 0-3) for all 12 JSON classes and the Redis/MongoDB/Zarr stub-store classes, after a seeded "
        "prefix of 0-6 ordinary operations (so the invalid item meets arbitrary earlier state, children of a class "
        "that differs from the root's). Entry points: constructor data, setitem (item/attribute syntax), slice "
        "assignment, setdefault, update (3 forms), reset, append, extend, insert, +=. Invalid kinds: non-str key "
        "(int, float, tuple, None, bool), non-JSON value (object, set, complex), dotted key (attribute-access "
        "families). Oracle: the call raises a TypeError/ValueError subclass; a non-perturbing walk of the in-memory "
        "tree and the independent observer find no forbidden item (incl. keys coerced to strings by an encoder); a "
        "rejected single-element operation leaves memory, model and backend unchanged. Fault kind: rejected_input "
        "only. Non-trivial = invalid item at depth>=1 of the argument or target is a nested child; distinct = "
        "(class, target kind/depth, entry point, invalid kind, depth) tuples.")
ASSUMPTIONS = ["Zarr: only non-string keys are forbidden by the type (values depend on the user-supplied codec)",
               "Redis/MongoDB/Zarr are in-process stubs", "no schedule or clock is involved"]
COMPONENTS = {"real": ["synced_collections (working tree)", "tmpfs file system"], "stub": ["redis", "mongo+bson", "zarr+numcodecs"]}
EXPECT_PROBES = {"quick": ["rejected_input"], "thorough": ["rejected_input"]}

BAD_KEYS = {"int": 987654, "float": 1.5, "tuple": {"$tuple": [1, 2]}, "none": {"$none": 0}, "bool": True}
COERCED = {"987654", "1.5", "null", "true", "True", "None", "(1, 2)"}
BAD_VALUES = {"object": {"$obj": "object"}, "set": {"$obj": "set"}, "complex": {"$obj": "complex"}}


def bad_item(kindname):
    """Return (encoded container fragment holding the invalid item, is_key)."""
    if kindname == "foreign_dotted":
        return {"$handle": 1 if hash(kindname) % 2 else 2} if False else {"$handle": 2}
    if kindname in BAD_KEYS:
        return {"$keydict": [[BAD_KEYS[kindname], 1], ["ok", 2]]}
    if kindname == "dot":
        return {"a.b": 1, "ok": 2}
    return BAD_VALUES[kindname]


def wrap(rg, frag, depth):
    """Embed frag at the given depth inside an otherwise valid argument value."""
    v = frag
    for _ in range(depth):
        if rg.random() < 0.5:
            v = {"good": 3, "w": v}
        else:
            v = [4, v, "t"]
    return v


def forbidden_in(v, attr, zarr):
    """Walk plain data; return description of a forbidden item or None."""
    if isinstance(v, dict):
        for k, x in v.items():
            if not isinstance(k, str):
                return f"non-string key {k!r}"
            if k in COERCED:
                return f"coerced key {k!r}"
            if attr and "." in k:
                return f"dotted key {k!r}"
            f = forbidden_in(x, attr, zarr)
            if f:
                return f
        return None
    if isinstance(v, (list, tuple)):
        for x in v:
            f = forbidden_in(x, attr, zarr)
            if f:
                return f
        return None
    if v is None or isinstance(v, (str, int, float, bool)):
        return None
    return None if zarr else f"non-JSON value {type(v).__name__}"


class W(World):
    def mem_plain(self, ob):
        return plain(ob.o, self.SC)

    def st_badop(self, st):
        h = self.handles[st["hid"]]
        ob = self.objs[h.oid]
        r = self.res[ob.rid]
        fam = self.ns.families[r.family]
        zarr = fam["store"] == "zarr"
        args = M.dec(st["args"], None)
        before_mem = self.mem_plain(ob)
        before_obs = self.observe(r)
        handle_nodes = [x.node if x is not None else None for x in self.handles]
        args = M.dec(st["args"], handle_nodes)
        res = self.lib_op(h.node, st["name"], args, st.get("attr", False))
        self.stat("fault_rejected_input")
        self.probe("rejected_input")
        what = f"{st['name']}{jsonable(st['args'])} on {type(h.node).__name__} at {h.path}"
        if not isinstance(res, M.Raised):
            raise Violation("accepted_forbidden", f"{what} was accepted (returned {M.result_plain(st['name'], res, self.SC)!r})")
        # the SAME argument object offered again must be rejected again (a validator must not remember it)
        res2 = self.lib_op(h.node, st["name"], args, st.get("attr", False))
        if not isinstance(res2, M.Raised):
            raise Violation("accepted_forbidden", f"{what}: rejected the first time, ACCEPTED when the same object was offered again")
        res = res2
        if not isinstance(res.exc, (TypeError, ValueError)):
            raise Violation("wrong_exception", f"{what} raised {res.cls.__name__}: {res.exc}")
        mem = self.mem_plain(ob)
        obs = self.observe(r)
        for name, v in (("memory", mem), ("backend", None if obs is ABSENT else obs)):
            f = forbidden_in(v, fam["attr"], zarr)
            if f:
                raise Violation("forbidden_data_stored", f"after rejected {what}: {name} contains {f}: {jsonable(v)!r}")
        if st.get("single"):
            if not same(mem, before_mem) and not same(mem, r.model):
                # (the op may have reloaded before rejecting: memory is then the current logical content)
                raise Violation("rejected_op_changed_memory", f"{what}: memory {before_mem!r} -> {mem!r}, logical content {r.model!r}")
            if not (obs is before_obs or (obs is not ABSENT and before_obs is not ABSENT and same(obs, before_obs))
                    or (before_obs is ABSENT and obs is not ABSENT and same(obs, r.model))):
                raise Violation("rejected_op_changed_backend", f"{what}: backend {before_obs!r} -> {obs!r}")
        else:
            # a rejected multi-element operation may have applied the valid part: follow the backend
            if obs is not ABSENT:
                r.model, r.disk, r.exists = deep(obs), deep(obs), True
                self.revalidate(r.rid)

    def st_badctor(self, st):
        r = self.res[st["rid"]]
        fam = self.ns.families[r.family]
        data = M.dec(st["data"], [x.node if x is not None else None for x in self.handles])
        res = self.call(lambda: self.construct(r, False, data))
        self.probe("rejected_input")
        self.stat("fault_rejected_input")
        if not isinstance(res, M.Raised):
            raise Violation("accepted_forbidden", f"constructor of {self.cls_of(r.family, r.kind).__name__} accepted data={jsonable(st['data'])!r}")
        if not isinstance(res.exc, (TypeError, ValueError)):
            raise Violation("wrong_exception", f"constructor raised {res.cls.__name__}: {res.exc}")


WorldClass = W


def make_cfg(rs, tier):
    ns = lib.load()
    return {"prop": ID, "family": G.pick(rs, sorted(ns.families)), "kind": G.pick(rs, ["dict", "list"]),
            "wc": rs.random() < 0.5, "threading": rs.random() < 0.7, "length": rs.choice([0, 0, 2, 6]),
            "oracles": ["backend"], "uuid_seed": rs.getrandbits(32), "depth": 2}


def setup(w, rg):
    cfg = w.cfg
    init = gen_value(rg, w.fresh, 2, cfg["kind"], 3)
    # make sure nested dict and list children exist
    if cfg["kind"] == "dict":
        init.update({"n": {"m": {}, "q": [{}]}, "l": [{}, [], 3]})
    else:
        init.extend([{"m": {}, "q": [{}]}, [{}, []]])
    yield {"t": "new_res", "family": cfg["family"], "kind": cfg["kind"], "init": init}
    yield {"t": "new_obj", "rid": 0, "wc": cfg["wc"]}
    if lib.load().families[cfg["family"]]["attr"]:
        # a synced collection of the PLAIN JSON family that legitimately holds dotted keys: storing it (or a child of
        # it) into an attribute-access collection must be rejected like the equivalent plain dict
        yield {"t": "new_res", "family": "JSON", "kind": "dict", "init": {"dotted.key": 1, "inner": {"x.y": 2, "lst": [{"p.q": 3}]}, "fine": {"ok": 4}}}
        yield {"t": "new_obj", "rid": 1, "wc": False}
        yield {"t": "op", "hid": 1, "name": "getitem", "args": ["inner"], "keep": True, "hid_new": 2}
        w.foreign = [1, 2]


def gen_prefix_step(w, rg):
    hs = [x for x in G.attached_handles(w) if w.objs[x.oid].rid == 0]
    h = G.pick(rg, hs)
    if rg.random() < 0.4:
        st = G.gen_navigate_step(rg, w, h)
        if st:
            return st
    return G.gen_op_step(rg, w, h, depth=2, mut_weight=0.7)


def gen_bad(w, rg):
    ns = lib.load()
    fam = ns.families[w.cfg["family"]]
    hs = G.attached_handles(w)
    nested = [h for h in hs if h.path]
    h = G.pick(rg, nested) if nested and rg.random() < 0.65 else G.pick(rg, hs)
    kinds = list(BAD_KEYS)
    if fam["store"] != "zarr":
        kinds += list(BAD_VALUES)
    if fam["attr"]:
        kinds += ["dot", "dot"]
    hs = [x for x in hs if w.objs[x.oid].rid == 0]
    nested = [x for x in hs if x.path]
    h = G.pick(rg, nested) if nested and rg.random() < 0.65 else G.pick(rg, hs)
    kn = G.pick(rg, kinds)
    depth = rg.choice([0, 0, 1, 2, 3])
    if getattr(w, "foreign", None) and rg.random() < 0.2:
        kn = "foreign_dotted"
    r = w.res[0]
    c = get_path(r.model, h.path)
    if rg.random() < 0.08:
        data = wrap(rg, bad_item(kn), depth)
        if w.cfg["kind"] == "dict":
            data = data if isinstance(data, dict) and "$obj" not in data else {"k": data}
        else:
            data = [data]
        return {"t": "badctor", "rid": 0, "data": data}, (kn, depth, "ctor", 0, w.cfg["kind"])
    # key-type invalid items used directly as the key of a single-element dict op
    if h.kind == "dict":
        entry = G.pick(rg, ["setitem", "setdefault", "update", "update_pairs", "update_kwargs", "reset", "setitem_key"])
        if entry == "setitem_key" and (kn in BAD_KEYS or kn == "dot"):
            key = "a.b" if kn == "dot" else BAD_KEYS[kn]
            st = {"t": "badop", "hid": h.hid, "name": G.pick(rg, ["setitem", "setdefault"]), "args": [key, 5], "single": True}
            if kn == "dot" and rg.random() < 0.0:
                st["attr"] = True
            return st, (kn, 0, "key", len(h.path), h.kind)
        if entry == "setitem_key":
            entry = "setitem"
        v = wrap(rg, bad_item(kn), depth)
        key = G.gen_key(rg, w.fresh, c, 0.5)
        if entry == "setitem":
            st = {"name": "setitem", "args": [key, v], "single": True}
            if fam["attr"] and key.isidentifier() and not key.startswith("_") and rg.random() < 0.3:
                st["attr"] = True
        elif entry == "setdefault":
            st = {"name": "setdefault", "args": [w.fresh.key(), v], "single": True}
        elif entry == "update":
            st = {"name": "update", "args": [{key: v} if rg.random() < 0.5 else {"u1": 77, key: v, "u2": 78}], "single": False}
        elif entry == "update_pairs":
            st = {"name": "update_pairs", "args": [[["u1", 77], [key, v]]], "single": False}
        elif entry == "update_kwargs":
            st = {"name": "update_kwargs", "args": [None, {"kw": v}], "single": False}
        else:
            st = {"name": "reset", "args": [{**deep(c), key: v}], "single": False}
    else:
        entry = G.pick(rg, ["append", "extend", "insert", "iadd", "setitem", "setitem_slice", "reset"])
        v = wrap(rg, bad_item(kn), depth)
        if entry == "append":
            st = {"name": "append", "args": [v], "single": True}
        elif entry == "insert":
            st = {"name": "insert", "args": [rg.randint(0, len(c)), v], "single": True}
        elif entry == "extend":
            st = {"name": "extend", "args": [[77, v]], "single": False}
        elif entry == "iadd":
            st = {"name": "iadd", "args": [[v, 78]], "single": False}
        elif entry == "setitem" and c:
            st = {"name": "setitem", "args": [rg.randrange(len(c)), v], "single": True}
        elif entry == "setitem_slice":
            st = {"name": "setitem", "args": [{"$slice": [0, 1, None]}, [v]], "single": True}
        else:
            st = {"name": "reset", "args": [deep(c) + [v]], "single": False}
    st.update({"t": "badop", "hid": h.hid})
    return st, (kn, depth, st["name"], len(h.path), h.kind)


# ---- threaded part: validation is not skipped under ANY interleaving ----------------------------------------------------
# Type classification and validation use process-wide objects shared by all threads.  For a few fixed pairs (a thread
# storing perfectly valid nested data into one collection, another thread offering forbidden data to a collection on
# ANOTHER file) EVERY single pre-emption is enumerated in both directions: the first thread runs k pre-emption points,
# the other runs to completion, the first resumes.  The forbidden operation must be rejected at every k and neither
# file may hold anything but its expected content.

TKMAX = 900
TSCEN = [
    # family, kind, valid op (T0, file 0), rejected op (T1, file 1)
    ("JSON", "dict", ("setitem", ["k", {"t": "text", "n": [1, {"m": "x"}], "f": 2.5}]), ("setitem", ["bad", {"n": [{"$keydict": [[987654, 2]]}]}])),
    ("JSON", "dict", ("update", [{"u": "text", "v": {"w": [True, None]}}]), ("setitem", ["bad", {"z": {"$obj": "complex"}}])),
    ("JSONAttr", "dict", ("setitem", ["k", {"t": "text", "n": {"m": "x"}}]), ("setitem", ["bad", {"in.ner": 1}])),
    ("JSONAttr", "list", ("append", [{"t": "text", "n": [1, "y"]}]), ("append", [{"a": [{"x.y": 1}]}])),
    ("BufferedJSON", "list", ("extend", [["text", {"m": "x"}, 3]]), ("append", [{"$obj": "set"}])),
    ("MemoryBufferedJSON", "dict", ("setdefault", ["k", {"t": ["text", {"m": 1}]}]), ("setitem", ["bad", {"g": 1, "h": {"$keydict": [[{"$none": 0}, 1]]}}])),
]
NTSCAN = len(TSCEN) * 2 * TKMAX
_tpoints = {}


def tscan_payload(j):
    from . import _thr
    fam, kind, valid, bad = TSCEN[j // (2 * TKMAX)]
    direction = (j // TKMAX) % 2
    k = j % TKMAX
    from ..core.values import Fresh
    fresh = Fresh()
    cfg = {"prop": ID, "family": fam, "kind": kind, "wc": False, "threading": True, "oracles": [], "uuid_seed": 11, "opcode": False}
    pre = [{"t": "new_res", "family": fam, "kind": kind, "init": _thr.init_content(kind, fresh)},
           {"t": "new_res", "family": fam, "kind": kind, "init": _thr.init_content(kind, fresh)},
           {"t": "new_obj", "rid": 0, "wc": False}, {"t": "new_obj", "rid": 1, "wc": False}]
    progs = [[{"h": 0, "name": valid[0], "args": valid[1]}], [{"h": 1, "name": bad[0], "args": bad[1], "rejected": True}]]
    first = "T0" if direction == 0 else "T1"
    strat = {"kind": "single", "first": first, "k": k, "order": [first, "T1" if first == "T0" else "T0"]}
    return {"part": "T", "cfg": cfg, "pre": pre, "progs": progs, "strat": strat, "sched_seed": f"tscan/{j}", "k": k, "first": first}


def tscan_run(payload):
    from . import _thr
    out = _thr.execute(payload["cfg"], payload["progs"], payload["strat"], payload["sched_seed"], payload["pre"], None)
    v = None
    if out["abort"] or out["errors"]:
        v = {"kind": "harness_thread_error" if out["abort"] != "deadlock" else "deadlock", "msg": f"{out['abort']} {out['errors']} {out.get('deadlock')}"}
    else:
        recs = {r["t"]: r for r in out["history"]}
        bad = recs.get(1)
        hist = _thr.describe_history(out)
        if bad is None or "exc" not in bad or not isinstance(bad["exc_obj"].exc, (TypeError, ValueError)):
            v = {"kind": "accepted_forbidden", "msg": f"forbidden data was not rejected with TypeError/ValueError under this interleaving "
                 f"({payload['first']} pre-empted after {payload['k']} points): {hist} | final={jsonable(out['final'])}"}
        elif not same(out["final"][1], out["init"][1]):
            v = {"kind": "forbidden_data_stored", "msg": f"the rejected operation changed its file: {hist} | final={jsonable(out['final'][1])}"}
        elif _thr.check_linearizable(out) is None:
            v = {"kind": "backend!=model", "msg": f"the valid operation next to a rejected one did not take effect as expected: {hist} | final={jsonable(out['final'])}"}
    return out, v


def tscan_points(j):
    key = j // TKMAX
    if key not in _tpoints:
        from ..core.runner import run_isolated
        p = tscan_payload(key * TKMAX + TKMAX - 1)
        out, v = run_isolated(tscan_run, (p,), timeout=60)
        _tpoints[key] = out.get("points", {}).get(p["first"], TKMAX)
    return _tpoints[key]


def run_one(seed, i, tier):
    if i < NTSCAN:
        k = i % TKMAX
        skip = {"viol": None, "probes": {"tscan_skipped": 1}, "stats": {}, "steps": 0, "faults": {}, "evals": 0}
        if tier == "quick" and (k + seed) % 3:
            return skip          # quick tier: every third pre-emption index (which third depends on the seed)
        if k > tscan_points(i) + 2:
            return skip
        from ..core.runner import run_isolated
        payload = tscan_payload(i)
        out, v = run_isolated(tscan_run, (payload,), timeout=60)
        res = {"viol": None, "probes": {"tscan_runs": 1, "rejected_input": 1, "preempt_in_op": out["preempt_in_op"]}, "stats": {}, "steps": out["steps"],
               "faults": {"preemption": out["switches"], "rejected_input": 1}, "evals": 1}
        if out["preempt_in_op"]:
            res["sigs"] = [digest([i // TKMAX, (out.get("switch_phases") or [""])[0]])]
        if v:
            v.update(index=i, replay=payload)
            res["viol"] = v
        return res
    i -= NTSCAN
    rs = stream(seed, ID, i, "cfg")
    cfg = make_cfg(rs, tier)
    rg = stream(seed, ID, i, "gen")
    w = W(cfg)
    steps, viol, sigs = [], None, []
    try:
        try:
            for st in setup(w, rg):
                steps.append(st)
                w.step(st)
            for _ in range(3):
                for _ in range(cfg["length"]):
                    st = gen_prefix_step(w, rg)
                    steps.append(st)
                    w.step(st)
                st, info = gen_bad(w, rg)
                steps.append(st)
                w.step(st)
                if info[1] >= 1 or info[3] >= 1:
                    sigs.append(digest([type(w.objs[0].o).__name__, list(info)]))
            w.finish()
        except Violation as e:
            viol = {"kind": e.kind, "msg": e.msg}
    finally:
        w.close()
    clean = [{k: v for k, v in s.items() if not k.startswith("_")} for s in steps]
    res = {"viol": None, "probes": w.probes, "stats": w.stats, "steps": w.nsteps, "sigs": sigs, "evals": 3,
           "faults": {"rejected_input": w.stats.get("fault_rejected_input", 0)}}
    if i % 997 == 0 or viol:
        res["sample"] = {"run_index": i, "cfg": cfg, "steps": jsonable(clean[-6:])}
    if viol:
        viol.update(index=i, replay={"cfg": cfg, "steps": clean})
        res["viol"] = viol
    return res


_me = sys.modules[__name__]


def replay(payload):
    if payload.get("part") == "T":
        from ..core.runner import run_isolated
        out, v = run_isolated(tscan_run, (payload,), timeout=60)
        return v
    return _seq.replay(_me, payload)


def minimise(payload, viol):
    if payload.get("part") == "T":
        return payload
    return _seq.minimise(_me, payload, viol)
