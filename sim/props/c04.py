"""C04 - writes through any handle never clobber changes made via other handles."""
import sys
from . import _seq, _unbuf

ID = "C04"
ENGINE = "seqsim"
LEVEL = "exploration"
RUNS = {"quick": 100000, "thorough": 400000}
CHUNK = 250
WorldClass = _unbuf.StaleWorld
RULE = ("seeded sequential histories over 2-3 root objects bound to one unbuffered resource plus retained nested-child "
        "handles of each (depth<=4), used alternately; every mutator incl. nested clear()/reset(); after every step the "
        "independent observer must equal ONE shared plain reference structure, and generated reads through a handle "
        "must equal the model at its path. No implicit observation reads (a stale handle stays stale until the "
        "workload touches it). Non-trivial = a mutator was issued through a handle whose root had not reloaded since "
        "another handle/object changed the resource; distinct = (family, kind, op/handle-depth/object sequence) hashes.")
ASSUMPTIONS = ["handles whose guarantee ended (position reassigned through the same parent, kind changed, list indices "
               "shifted through the same object) are dropped, not checked (DESIGN §2.3)",
               "Redis/MongoDB/Zarr are in-process stubs"]
COMPONENTS = {"real": ["synced_collections (working tree)", "tmpfs file system"], "stub": ["redis", "mongo+bson", "zarr+numcodecs"]}
EXPECT_PROBES = {"quick": ["stale_child_handle_written"], "thorough": ["stale_child_handle_written"]}


def make_cfg(rs, tier):
    cfg = _unbuf.base_cfg(rs, ID)
    cfg["nobj"] = rs.choice([2, 2, 3])
    cfg["p_outside"] = 0.0
    cfg["oracles"] = ["backend", "result", "children"]
    cfg["p_synced_operand"] = rs.choice([0.0, 0.1])
    cfg["p_handle_store"] = rs.choice([0.0, 0.05])
    return cfg


setup = _unbuf.setup


def gen_step(w, rg):
    if rg.random() < 0.08:
        # a REJECTED operation (forbidden key/value; forms that apply nothing before failing): afterwards the handle
        # must still behave like every other handle
        from ..engines import seqgen as G
        hs = G.attached_handles(w)
        if hs:
            h = G.pick(rg, hs)
            w.probe("rejected_op")
            badkey = {"$keydict": [[987654, 1]]}
            if w.cfg["family"] == "Zarr":
                # Zarr forbids only non-string keys (values depend on the codec)
                name, args = G.pick(rg, [("reset", [badkey]), ("update", [badkey])] if h.kind == "dict" else [("append", [badkey]), ("insert", [0, badkey])])
            elif h.kind == "dict":
                name, args = G.pick(rg, [("setitem", ["bad", {"$obj": "object"}]), ("reset", [{"$keydict": [[987654, 1]]}]),
                                         ("update", [{"$keydict": [[987654, 1]]}]), ("setdefault", [w.fresh.key(), {"$obj": "set"}])])
            else:
                name, args = G.pick(rg, [("append", [{"$obj": "object"}]), ("insert", [0, {"$obj": "complex"}]),
                                         ("extend", [[{"$obj": "object"}]]), ("iadd", [[{"$obj": "set"}]])])
            return {"t": "op", "hid": h.hid, "name": name, "args": args, "rejected": True}
    return _unbuf.gen_step(w, rg)


def signature(w, cfg, steps):
    if not w.probes.get("stale_handle_written"):
        return None
    return _seq.shape_sig(w, cfg, steps, (cfg["kind"],))


_me = sys.modules[__name__]
run_one = lambda seed, i, tier: _seq.run_one(_me, seed, i, tier)  # noqa
replay = lambda payload: _seq.replay(_me, payload)  # noqa
minimise = lambda payload, viol: _seq.minimise(_me, payload, viol)  # noqa
