"""C03 - operations refine built-in dict/list: same results, same errors, same content."""
import sys
from . import _seq, _unbuf
from ..core import lib
from ..core.values import gen_value, gen_scalar, get_path, deep
from ..engines import seqgen as G

ID = "C03"
ENGINE = "seqsim"
LEVEL = "exploration"
RUNS = {"quick": 120000, "thorough": 500000}
CHUNK = 250
RULE = ("seeded operation SEQUENCES over the full MutableMapping/MutableSequence surface (incl. inherited mixins, "
        "slices get/set/del with extended steps and wrong lengths, negative/out-of-range/wrongly-typed indices, "
        "unhashable keys, missing keys, update in all call forms incl. malformed ones, setdefault, comparison "
        "operators against synced operands of the same class and plain lists/tuples/other types) on roots and nested "
        "children; each op is executed on the library and on a built-in dict/list; oracle: same outcome kind, same "
        "plain result (type-strict), exception instance of the built-in's class, content+backend equal the model "
        "(unchanged when the built-in raised). No schedule/clock/fault dimension: the simulator contributes the "
        "reference model, the backend observer and seeded search + shrinking. Non-trivial = the run contains an op "
        "that raised in the model or a slice/comparison/mixin op; distinct = step-shape hashes.")
ASSUMPTIONS = ["documented deviations built into the model: forbidden keys/values rejected, dict.pop(missing) -> None, "
               "popitem must return the last inserted item unless a bulk update/reset happened on the resource before (then any item), tuples/bytes/ranges stored as lists, dict order compared as a set",
               "reset(x) is modelled as clear()+update(x)/extend(x), ValueError for the wrong kind",
               "Redis/MongoDB/Zarr are in-process stubs"]
COMPONENTS = {"real": ["synced_collections (working tree)", "tmpfs file system"], "stub": ["redis", "mongo+bson", "zarr+numcodecs"]}
EXPECT_PROBES = {"quick": [], "thorough": []}


def make_cfg(rs, tier):
    cfg = _unbuf.base_cfg(rs, ID, p_list=0.5)
    cfg["nobj"] = rs.choice([1, 1, 2])   # a second object is only ever used as a comparison operand (never loaded before)
    cfg["p_outside"] = 0.0
    cfg["p_mut"] = rs.choice([0.4, 0.6])
    cfg["oracles"] = ["backend", "result", "popitem_lifo"]
    return cfg


setup = _unbuf.setup

BAD_KEYS = [["unhashable"], {"$tuple": [1, ["x"]]}]
BAD_IDX = ["a", None, 1.0, True, False, {"$tuple": [0]}, [0]]
OTHER_OPERANDS = [None, 5, "abc", {"$tuple": [1, 2]}, {"$tuple": []}, [], {}, [[1]], {"a": 1}, 2.5, True]


def weird_dict_op(rg, w, c):
    r = rg.random()
    if r < 0.3:
        name = G.pick(rg, ["getitem", "delitem", "contains", "pop", "setdefault", "get", "setitem"])
        a = [G.pick(rg, BAD_KEYS)]
        if name == "setitem":
            a.append(1)
        return name, a
    if r < 0.55:
        bad = G.pick(rg, [5, None, [[1, 2, 3]], [["k"]], ["ab", "cd"], [["k", 1], ["k2"]], "ab", [5]])
        if bad is None:
            return "update_kwargs", [None, {"z": gen_scalar(rg, w.fresh)}]
        return "update_pairs", [bad]
    if r < 0.7:
        return "reset", [G.pick(rg, [[], [["a", 1]], 5, "ab", None, {"$tuple": []}])]
    return G.pick(rg, ["eq", "ne"]), [G.pick(rg, OTHER_OPERANDS)]


def weird_list_op(rg, w, c):
    n = len(c)
    r = rg.random()
    if r < 0.2:
        name = G.pick(rg, ["getitem", "delitem", "setitem", "insert", "pop"])
        a = [G.pick(rg, BAD_IDX)]
        if name in ("setitem", "insert"):
            a.append(gen_scalar(rg, w.fresh))
        return name, a
    if r < 0.4:
        lo, hi = rg.randint(-n - 1, n + 1), rg.randint(-n - 1, n + 1)
        stp = G.pick(rg, [2, -1, -2, 3, 0, None])
        key = {"$slice": [lo, hi, stp]}
        name = G.pick(rg, ["getitem", "delitem", "setitem", "setitem"])
        if name == "setitem":
            v = G.pick(rg, [5, None, "ab", [gen_scalar(rg, w.fresh) for _ in range(rg.randint(0, 3))],
                            {"$tuple": [2, 3]}, {"x": 1}, {"$range": [2, 4]}])
            return name, [key, v]
        return name, [key]
    if r < 0.55:
        return G.pick(rg, ["extend", "iadd"]), [G.pick(rg, [5, None, "ab", {"k": 1}, {"$tuple": [2, [3]]}, {"$gen": [2, 3]},
                                                          {"$range": [2, 5]}, {"$bytes": [2, 3]}])]
    if r < 0.7:
        v = deep(G.pick(rg, c)) if c and rg.random() < 0.7 else gen_scalar(rg, w.fresh)
        a = [v, rg.randint(-n - 1, n + 1)]
        if rg.random() < 0.5:
            a.append(rg.randint(-n - 1, n + 1))
        return "index", a
    if r < 0.8:
        return "reset", [G.pick(rg, [{}, {"a": 1}, 5, "ab", None, {"$tuple": [2, 3]}, {"$range": [2, 4]}])]
    name = G.pick(rg, ["eq", "ne", "lt", "le", "gt", "ge"])
    op = G.pick(rg, OTHER_OPERANDS + [deep(c), {"$tuple": deep(c)}])
    return name, [op]


def gen_step(w, rg):
    rem = [h for h in G.attached_handles(w, allow_removed=True) if h.oid == 0 and h.state == "removed" and getattr(h, "detached", None) is not None]
    if rem and rg.random() < 0.15:
        # a value that was removed from the collection (pop/popitem/del) and is still held: it behaves like the plain
        # detached dict/list it now is
        w.probe("removed_value_op")
        return G.gen_op_step(rg, w, G.pick(rg, rem), depth=2, mut_weight=0.4, keep_p=0.0)
    allh = G.attached_handles(w)
    hs = [h for h in allh if h.oid == 0]
    if not hs:
        return None
    nested = [h for h in hs if h.path]
    h = G.pick(rg, nested) if nested and rg.random() < 0.5 else G.pick(rg, hs)
    r = w.res[0]
    c = get_path(r.model, h.path)
    roll = rg.random()
    if roll < 0.22:
        name, args = (weird_dict_op if h.kind == "dict" else weird_list_op)(rg, w, c)
        w.probe("weird_op")
        return {"t": "op", "hid": h.hid, "name": name, "args": args}
    if roll < 0.30:
        # comparison against a synced operand (another handle of the same kind)
        same_kind = [x for x in allh if x.kind == h.kind]
        other = G.pick(rg, same_kind)
        names = ["eq", "ne"] if h.kind == "dict" else ["eq", "ne", "lt", "le", "gt", "ge"]
        name = G.pick(rg, names)
        if name in ("lt", "le", "gt", "ge"):
            oc = get_path(r.model, other.path)
            if not (G.comparable(c) and G.comparable(oc)):
                name = "eq"
        w.probe("synced_operand")
        return {"t": "op", "hid": h.hid, "name": name, "args": [{"$handle": other.hid}]}
    if roll < 0.36:
        # documented deviation: bytes / tuples / ranges (also nested) are STORED as lists
        seqv = G.pick(rg, [{"$bytes": [2, 3]}, {"$tuple": [2, [3]]}, {"$range": [2, 5]}, {"k": {"$tuple": [4, 5]}}, [{"$bytes": [7]}], {"$tuple": []}])
        w.probe("weird_op")
        if h.kind == "dict":
            name, args = G.pick(rg, [("setitem", [G.gen_key(rg, w.fresh, c, 0.3), seqv]), ("update", [{"sq": seqv}]), ("setdefault", [w.fresh.key(), seqv])])
        else:
            name, args = G.pick(rg, [("append", [seqv]), ("insert", [0, seqv]), ("extend", [[seqv]]), ("iadd", [[seqv]])])
        return {"t": "op", "hid": h.hid, "name": name, "args": args}
    if roll < 0.45:
        st = G.gen_navigate_step(rg, w, h)
        if st:
            return st
    return G.gen_op_step(rg, w, h, depth=w.cfg["depth"], mut_weight=w.cfg["p_mut"], slices=True,
                         attr_p=0.2 if lib.load().families[w.cfg["family"]]["attr"] else 0.0)


def signature(w, cfg, steps):
    if not (w.probes.get("weird_op") or w.probes.get("synced_operand")):
        return None
    return _seq.shape_sig(w, cfg, steps, (cfg["kind"],))


_me = sys.modules[__name__]
run_one = lambda seed, i, tier: _seq.run_one(_me, seed, i, tier)  # noqa
replay = lambda payload: _seq.replay(_me, payload)  # noqa
minimise = lambda payload, viol: _seq.minimise(_me, payload, viol)  # noqa
