"""C10 - no operation leaks a lock; no interleaving deadlocks."""
import os
import sys
from . import _thr, c09
from ..core import lib, seams, simlock
from ..core import model as M
from ..core.values import Fresh, stream, digest, jsonable, deep, gen_value, get_path
from ..engines import seqgen as G
from ..engines import threadsim as TS
from ..engines.seqsim import World, Violation

ID = "C10"
ENGINE = "threadsim+seqsim"
LEVEL = "fault_enumeration"
ISOLATE = True
RUN_TIMEOUT = 120
RUNS = {"quick": 8000, "thorough": 120000}
CHUNK = 50
RULE = ("two run kinds. (A, fault enumeration, even run indices) a seeded operation (any public mutator or read, root or "
        "nested child, all 6 JSON families, unbuffered / inside obj.buffered / inside buffer_backend, plus context exits "
        "and set_buffer_capacity) is first executed in a dry run that counts its seam calls (open/read/write/close/"
        "replace/stat/json.dumps/json.loads); then it is re-executed from the same state once per call index k with a "
        "fault armed exactly there (OSError EIO/ENOSPC/EACCES/EMFILE at file seams, TypeError/ValueError/RecursionError/"
        "MemoryError at the encoder, ValueError at the decoder), plus once with the resource made unparsable "
        "(corrupt_resource) and once with a forbidden value inside the argument (rejected_input); also filename_rebind: "
        "one object's filename is re-pointed while another object and its nested handles stay on the old file. Oracle "
        "after the call returned or raised: the caller owns no simulated lock; a SECOND simulated thread then performs an "
        "operation on the same collection and on another collection of the class and is never blocked. (B, odd indices) "
        "threadsim programs mixing unbuffered and buffered mutators, clear/reset, reads, obj.buffered blocks, "
        "set_buffer_capacity, object construction and filename re-binding in 2-3 threads under seeded schedules; oracle: "
        "no wait-for cycle (deadlock), no lock held by a finished thread, bounded progress (step cap). evaluations = "
        "fault points + schedules executed; distinct = (op, mode, seam kind at the fault point, outcome) and (program, switch sites).")
ASSUMPTIONS = ["a second simulated thread is a different simulated lock owner executing on the same OS thread (locks are simulated: ownership is explicit state)",
               "data results are not judged here (C09/C13/C14 do that); only leaks, blocking and deadlock"] + c09.ASSUMPTIONS[:2]
COMPONENTS = c09.COMPONENTS
EXPECT_PROBES = {"quick": ["fault_fired", "fault_in_load", "fault_in_save", "second_thread_ok", "rebind_checked", "lock_contended"],
                 "thorough": ["fault_fired", "fault_in_load", "fault_in_save", "second_thread_ok", "rebind_checked", "lock_contended"]}

OSERRS = ["EIO", "ENOSPC", "EACCES", "EMFILE"]
ENCERRS = ["TypeError", "ValueError", "RecursionError", "MemoryError"]


# ---- part A ------------------------------------------------------------------------------------------------------

def make_world(cfg, prefix):
    w = World(cfg)
    for st in prefix:
        w.step(dict(st))
    return w


def exec_target(w, target):
    """Execute the target step directly on the library (no model bookkeeping). Returns Raised or result."""
    s = w.seams
    s.lib_active = True
    try:
        try:
            if target["t"] == "op":
                h = w.handles[target["hid"]]
                return M._lib_apply(h.node, target["name"], M.dec(target["args"], None), False)
            if target["t"] == "exit":
                c = w.ctx.pop()
                return (w.objs[c["oid"]].o.buffered if c["kind"] == "obj" else c["cm"]).__exit__(None, None, None)
            if target["t"] == "setcap":
                return w.cls_of(target["family"], target["kind"]).set_buffer_capacity(target["n"])
            if target["t"] == "construct":
                r = w.res[target["rid"]]
                return w.construct(r, False)
        except simlock.WouldBlock:
            raise
        except Violation:
            raise
        except BaseException as e:  # noqa  (injected KeyboardInterrupt included)
            return M.Raised(e)
    finally:
        s.lib_active = False


def second_thread_probe(w, what):
    """A second simulated thread must be able to operate on the same and on other collections."""
    simlock.CUR[0] = "T2"
    s = w.seams
    s.lib_active = True
    try:
        for ob in w.objs:
            if not ob.alive:
                continue
            r = w.res[ob.rid]
            try:
                if r.kind == "dict":
                    ob.o["probe"] = 1
                else:
                    ob.o.append(1)
                len(ob.o)
            except simlock.WouldBlock as e:
                lib.lock_labels()
                raise Violation("lock_leak", f"after {what} a second thread is blocked forever on {e.lock!r}")
            except Exception:
                pass  # the data may legitimately be unreadable after the fault; only blocking matters here
        # a brand-new object on every file, too
        for r in w.res:
            try:
                o = w.construct(r, False)
                len(o)
            except simlock.WouldBlock as e:
                lib.lock_labels()
                raise Violation("lock_leak", f"after {what} a second thread is blocked forever on {e.lock!r}")
            except Exception:
                pass
    finally:
        s.lib_active = False
        simlock.CUR[0] = "main"
    leaked = simlock.held_by("T2")
    if leaked:
        raise Violation("lock_leak", f"the probing thread itself leaked {leaked!r}")


def check_no_lock(w, what):
    held = simlock.held()
    if held:
        lib.lock_labels()
        raise Violation("lock_leak", f"after {what} the caller still holds {[repr(l) for l, o, c in simlock.held()]}")


def fault_run(seed, i, tier):
    ns = lib.load()
    rs = stream(seed, ID, i, "cfg")
    fam = G.pick(rs, ns.json_families)
    buffered_fam = ns.families[fam]["buffered"]
    mode = rs.choice(["unbuffered", "obj", "backend"]) if buffered_fam else "unbuffered"
    cfg = {"prop": ID, "family": fam, "wc": rs.random() < 0.5, "threading": True, "oracles": [], "uuid_seed": rs.getrandbits(32),
           "kinds": [G.pick(rs, ["dict", "list"]) for _ in range(2)], "mode": mode, "corrupt_ok": True}
    rg = stream(seed, ID, i, "gen")
    # ---- build the prefix with a scratch world ----
    w = World(cfg)
    prefix = []

    def emit(st):
        prefix.append(st)
        w.step(st)
    stats = {"fault_points": 0, "fault_fired": 0, "fault_in_load": 0, "fault_in_save": 0, "second_thread_ok": 0, "rebind_checked": 0,
             "corrupt": 0, "rejected": 0}
    sigs = []
    viol = None
    try:
        for r in range(2):
            emit({"t": "new_res", "family": fam, "kind": cfg["kinds"][r], "init": gen_value(rg, w.fresh, 2, cfg["kinds"][r], 3)})
        emit({"t": "new_obj", "rid": 0, "wc": cfg["wc"]})
        emit({"t": "new_obj", "rid": 0, "wc": cfg["wc"]})
        emit({"t": "new_obj", "rid": 1, "wc": cfg["wc"]})
        for _ in range(rg.randint(0, 3)):
            h = G.pick(rg, G.attached_handles(w))
            st = G.gen_navigate_step(rg, w, h) if rg.random() < 0.5 else None
            emit(st or G.gen_op_step(rg, w, h, depth=2, mut_weight=0.7))
        if rg.random() < 0.12:
            emit({"t": "symlink", "rid": 0})      # the objects' filename is a symbolic link (the first save replaces the link)
        conflict = mode == "backend" and rg.random() < 0.3
        if mode == "obj":
            emit({"t": "enter", "ctx": "obj", "oid": 0})
        elif mode == "backend":
            emit({"t": "enter", "ctx": "backend", "family": fam, "kind": cfg["kinds"][0]})
        if conflict:
            # CONFLICT: file 0 is modified in the buffer, then changed by an outside writer; the capacity is set to the
            # current buffer size, so the target's own save forces a flush that raises BufferedError out of the operation
            r0 = w.res[0]
            emit({"t": "op", "hid": 0, "name": "setitem", "args": ["cfl", w.fresh.int()]} if r0.kind == "dict" else {"t": "op", "hid": 0, "name": "append", "args": [w.fresh.int()]})
            emit({"t": "outside", "rid": 0, "edit": ["replace", gen_value(rg, w.fresh, 2, r0.kind, 3)]})
            for k_ in sorted(set(cfg["kinds"])):
                emit({"t": "setcap_cur", "family": fam, "kind": k_})
        elif mode != "unbuffered" and rg.random() < 0.6:
            emit(G.gen_op_step(rg, w, w.handles[0], depth=2, mut_weight=0.8))
        # ---- the target ----
        roll = rg.random()
        hs = [h for h in G.attached_handles(w) if w.objs[h.oid].rid == 0]
        if mode != "unbuffered" and roll < 0.2:
            target = {"t": "exit"}
        elif mode != "unbuffered" and roll < 0.3:
            target = {"t": "setcap", "family": fam, "kind": cfg["kinds"][0], "n": 0}
        elif roll < 0.36 and not conflict:
            target = {"t": "construct", "rid": 0}
        elif conflict:
            # a mutator on either file: its save exceeds the capacity and forces the flush that hits the conflict
            h = G.pick(rg, [x for x in G.attached_handles(w) if not x.path])
            target = G.gen_op_step(rg, w, h, depth=2, mut_weight=1.0)
            target.pop("keep", None)
        else:
            h = G.pick(rg, hs)
            target = G.gen_op_step(rg, w, h, depth=2, mut_weight=0.75)
            target.pop("keep", None)
        tdesc = target.get("name", target["t"])
    finally:
        w.close()

    def one(plan=None, corrupt=False, bad_arg=False):
        ww = make_world(cfg, prefix)
        try:
            tgt = dict(target)
            if corrupt:
                ww.outside_write_raw(ww.res[0], raw=b'{"unterminated": [1, 2')
            if bad_arg and tgt["t"] == "op":
                hk = ww.handles[tgt["hid"]].kind
                tgt = {"t": "op", "hid": tgt["hid"], "name": "setitem" if hk == "dict" else "append",
                       "args": (["bad", {"$obj": "object"}] if hk == "dict" else [{"$obj": "object"}])}
            ww.seams.arm(plan)
            res = exec_target(ww, tgt)
            n = ww.seams.calls
            fired = list(ww.seams.fired)
            ww.seams.disarm()
            what = f"{tdesc} [{mode}]" + (f" with {plan['exc']} injected at seam call #{plan['at']} ({fired[0][0] if fired else 'not reached'})" if plan else "") \
                + (" on an unparsable file" if corrupt else "") + (" with a forbidden value" if bad_arg else "")
            check_no_lock(ww, what)
            second_thread_probe(ww, what)
            stats["second_thread_ok"] += 1
            return n, fired, res
        finally:
            ww.close()
    try:
        n, _, res0 = one()
        if conflict and isinstance(res0, M.Raised) and isinstance(res0.exc, ns.errors.BufferedError):
            stats["conflict_raised_in_op"] = stats.get("conflict_raised_in_op", 0) + 1
        kinds_seen = []
        # the sequence of seam kinds of the dry run (to choose matching exception types)
        ww = make_world(cfg, prefix)
        try:
            ww.seams.log = []
            ww.seams.arm(None)
            exec_target(ww, dict(target))
            kinds_seen = [k for k, _ in ww.seams.log]
        finally:
            ww.close()
        first_write = next((j for j, k in enumerate(kinds_seen) if k in ("dumps", "write", "replace")), len(kinds_seen))
        for k in range(len(kinds_seen)):
            kind = kinds_seen[k]
            if kind == "dumps":
                exc = (G.pick(rg, ENCERRS),)
            elif kind == "loads":
                exc = ("ValueError",)
            else:
                exc = ("OSError", G.pick(rg, OSERRS))
            stats["fault_points"] += 1
            if rg.random() < 0.2:
                exc = ("KeyboardInterrupt",)     # a non-Exception BaseException (signal handler, cancellation) at this seam call
            _, fired, res = one({"at": k, "exc": exc})
            if fired:
                stats["fault_fired"] += 1
                stats["fault_in_load" if k < first_write else "fault_in_save"] += 1
                sigs.append(digest([tdesc, mode, kind, exc[0], isinstance(res, M.Raised)]))
        one(corrupt=True)
        stats["corrupt"] += 1
        stats["fault_points"] += 1
        if target["t"] == "op":
            one(bad_arg=True)
            stats["rejected"] += 1
            stats["fault_points"] += 1
        # ---- filename re-binding ----
        if rg.random() < 0.5:
            ww = make_world(cfg, prefix)
            try:
                a, b = ww.objs[0].o, ww.objs[1].o
                child = None
                for h in ww.handles:
                    if h is not None and h.oid == 1 and h.path:
                        child = h.node
                newp = os.path.join(ww.dir, "rebound.json")
                ww.seams.lib_active = True
                try:
                    a.filename = newp
                    for who, o in (("B (still on the old file)", b), ("A (re-pointed)", a), ("nested child of B", child)):
                        if o is None:
                            continue
                        try:
                            if isinstance(o._data, dict):
                                o["rebind"] = 1
                            else:
                                o.append(1)
                            len(o)
                        except simlock.WouldBlock as e:
                            raise Violation("lock_leak", f"after A.filename = new, {who} is blocked on {e.lock!r}")
                        except KeyError as e:
                            raise Violation("rebind_broke_other_object", f"after A.filename = new, an operation through {who} raised KeyError({e})")
                        except Exception:
                            pass      # e.g. the BufferedError of the conflict configuration: only blocking / KeyError matter here
                finally:
                    ww.seams.lib_active = False
                check_no_lock(ww, "filename re-binding")
                second_thread_probe(ww, "filename re-binding")
                stats["rebind_checked"] += 1
            finally:
                ww.close()
    except Violation as e:
        viol = {"kind": e.kind, "msg": e.msg}
    return {"viol": viol, "stats": stats, "sigs": sigs, "evals": max(1, stats["fault_points"]), "replay": {"part": "A", "seed": seed, "index": i, "tier": tier},
            "sample": {"target": jsonable(target), "mode": mode, "family": fam, "seam_calls": stats["fault_points"]}}


# ---- part B ------------------------------------------------------------------------------------------------------

def thread_build(seed, i, tier):
    ns = lib.load()
    rs = stream(seed, ID, i, "cfg")
    fresh = Fresh()
    fam = G.pick(rs, ns.buffered_families + ["JSON"])
    buffered_fam = ns.families[fam]["buffered"]
    kind = G.pick(rs, ["dict", "list"])
    cfg = {"prop": ID, "family": fam, "kind": kind, "wc": rs.random() < 0.5, "threading": True, "oracles": [],
           "uuid_seed": rs.getrandbits(32), "opcode": rs.random() < 0.06}
    nres = rs.choice([1, 2])
    pre, inits = [], []
    for r in range(nres):
        init = _thr.init_content(kind, fresh)
        inits.append(init)
        pre.append({"t": "new_res", "family": fam, "kind": kind, "init": init})
    obj_rid = []
    for r in range(nres):
        for _ in range(rs.choice([1, 2])):
            pre.append({"t": "new_obj", "rid": r, "wc": cfg["wc"]})
            obj_rid.append(r)
    nobj = len(obj_rid)
    nthreads = rs.choice([2, 2, 3])
    progs = []
    for t in range(nthreads):
        ops = []
        for _ in range(rs.choice([1, 2, 3])):
            h = rs.randrange(nobj)
            c = inits[obj_rid[h]]
            roll = rs.random()
            if buffered_fam and roll < 0.25:
                name, args = _thr.gen_thread_op(rs, fresh, kind, c)
                ops.append({"h": h, "name": "$buffered_block", "args": [name, args]})
            elif buffered_fam and roll < 0.33:
                ops.append({"h": h, "name": "$setcap", "args": [rs.choice([0, 1, 50, 10**6])]})
            elif roll < 0.36:
                # open an object on a NEW file that other threads open at the same time, and write through it
                ops.append({"h": h, "name": "$construct_new", "args": [f"new{rs.randrange(2)}.json", fresh.int()]})
            elif roll < 0.40:
                ops.append({"h": h, "name": "$construct", "args": []})
            elif roll < 0.45:
                ops.append({"h": h, "name": "$rebind", "args": [f"alt{rs.randrange(2)}.json"]})
            elif roll < 0.48:
                ops.append({"h": h, "name": "$iter_partial", "args": []})
            elif roll < 0.53 and nres == 2:
                # copy from a collection bound to the OTHER file (a.update(b) next to b.update(a)): two per-file locks
                others = [x for x in range(nobj) if obj_rid[x] != obj_rid[h]]
                o = others[rs.randrange(len(others))]
                ops.append({"h": h, "name": "update" if kind == "dict" else "extend", "args": [{"$handle": o}]})
            elif roll < 0.6:
                name, args = _thr.gen_thread_op(rs, fresh, kind, c, readers=True)
                ops.append({"h": h, "name": name, "args": args})
            else:
                name, args = _thr.gen_thread_op(rs, fresh, kind, c)
                ops.append({"h": h, "name": name, "args": args})
        progs.append(ops)
    if rs.random() < 0.15:
        # constructor race: every thread opens an object on the SAME new file and writes through it
        fname = f"new{rs.randrange(2)}.json"
        progs = [[{"h": rs.randrange(nobj), "name": "$construct_new", "args": [fname, fresh.int()]}] +
                 ([{"h": rs.randrange(nobj), "name": "$construct_new", "args": [fname, fresh.int()]}] if rs.random() < 0.4 else [])
                 for _ in range(nthreads)]
    # ($rebind may hit an object another thread is using at the same time: operations waiting for that object's lock
    #  must neither fail with a lock-protocol error nor leak the old file's lock - found and fixed, see C10-X3)
    r = rs.random()
    if r < 0.45:
        strat = {"kind": "random", "p": rs.choice([0.02, 0.1, 0.3])}
    elif r < 0.7:
        strat = {"kind": "pct", "d": rs.choice([1, 2, 3]), "est": rs.choice([150, 400, 800])}
    else:
        order = [f"T{x}" for x in range(nthreads)]
        rs.shuffle(order)
        strat = {"kind": "single", "first": order[0], "k": rs.randrange(0, rs.choice([60, 200, 500])), "order": order}
    ctx = None
    if buffered_fam and rs.random() < 0.5:
        ctx = [{"kind": "backend", "family": fam, "rkind": kind, "cap": rs.choice([None, None, 0, 1, 100])}]
    return {"cfg": cfg, "pre": pre, "progs": progs, "strat": strat, "sched_seed": f"{seed}/{ID}/{i}", "ctx": ctx, "shape": "mix"}


_KEEP = []


def plain_first(x):
    return None if x is None or not isinstance(x, (str, int, float, bool)) else x


def _special_ops():
    """Extend the library-op dispatcher with the C10-only pseudo operations (executed inside simulated threads)."""
    orig = M._lib_apply

    def apply(n, name, a, attr=False):
        if not name.startswith("$"):
            return orig(n, name, a, attr)
        if name == "$buffered_block":
            with n.buffered:
                return orig(n, a[0], M.dec(a[1], None), False)
        if name == "$setcap":
            return type(n).set_buffer_capacity(a[0])
        if name == "$construct":
            o = type(n)(filename=n.filename)
            return len(o)
        if name == "$construct_new":
            o = type(n)(filename=os.path.join(os.path.dirname(n.filename), a[0]))
            if isinstance(o._data, dict):
                o["k%d" % a[1]] = a[1]
            else:
                o.append(a[1])
            return len(o)
        if name == "$rebind":
            n.filename = os.path.join(os.path.dirname(n.filename), a[0])
            return None
        if name == "$iter_partial":
            # an iteration that is started and not finished (the iterator stays alive): nothing may stay locked behind it
            it = iter(n)
            _KEEP.append(it)
            return plain_first(next(it, None))
        raise NotImplementedError(name)
    M._lib_apply = apply


def thread_judge(out):
    if out["abort"] == "deadlock":
        return {"kind": "deadlock", "msg": f"deadlock: {out['deadlock']} | history so far: {_thr.describe_history(out)}"}
    if out["abort"] == "step_cap":
        return {"kind": "no_progress", "msg": "step cap reached: threads did not finish within the step budget"}
    if out["abort"] == "error" or out["errors"]:
        return {"kind": "harness_thread_error", "msg": f"thread raised outside an operation: {out['errors']}"}
    leaked = [r for r in out["history"] if r.get("leaked")]
    if leaked or out["held_after"]:
        return {"kind": "lock_leak", "msg": f"lock still held after an operation returned: {leaked[0]['leaked'] if leaked else out['held_after']} | {_thr.describe_history(out)}"}
    broken = [r for r in out["history"] if r.get("exc") == "RuntimeError" and "un-acquired lock" in str(r["exc_obj"].exc)]
    if broken:
        return {"kind": "lock_protocol_error", "msg": f"an operation released a lock it does not hold (its lock was replaced under it): {_thr.describe_history(out)}"}
    return None


def run_thread_payload(payload):
    _special_ops()
    out = _thr.execute(payload["cfg"], payload["progs"], payload["strat"], payload["sched_seed"], payload["pre"], payload.get("ctx"))
    return out, thread_judge(out)


def run_one(seed, i, tier):
    if i % 2 == 0:
        r = fault_run(seed, i, tier)
        st = r["stats"]
        res = {"viol": None, "evals": r["evals"], "steps": st["fault_points"], "sigs": r["sigs"],
               "probes": {k: st.get(k, 0) for k in ("fault_fired", "fault_in_load", "fault_in_save", "second_thread_ok", "rebind_checked", "conflict_raised_in_op")},
               "faults": {"io_error_or_encoder_error": st["fault_fired"], "corrupt_resource": st["corrupt"], "rejected_input": st["rejected"],
                          "filename_rebind": st["rebind_checked"]}, "stats": {"fault_points": st["fault_points"]}}
        res["logd"] = digest([jsonable(r["sample"]), sorted(st.items()), r["sigs"]])
        if i % 500 == 0 or r["viol"]:
            res["sample"] = dict(r["sample"], run_index=i)
        if r["viol"]:
            v = r["viol"]
            v.update(index=i, replay=r["replay"])
            res["viol"] = v
        return res
    payload = thread_build(seed, i, tier)
    out, v = run_thread_payload(payload)
    res = {"viol": None, "steps": out["steps"], "probes": {"preempt_in_op": out["preempt_in_op"], "lock_contended": out["contended"]},
           "faults": {"preemption": out["switches"]}, "stats": {"ops": len(out["history"])}}
    res["logd"] = digest(jsonable([payload["progs"], out["choices"], _thr.describe_history(out)]))
    if out["preempt_in_op"]:
        res["sig"] = digest([[[(o["h"], o["name"]) for o in p] for p in payload["progs"]], out["switch_sites"]])
    if i % 499 == 0 or v:
        res["sample"] = {"run_index": i, "programs": jsonable(payload["progs"]), "strategy": payload["strat"], "ctx": payload["ctx"]}
    if v:
        rp = dict(payload, part="B")
        rp["strat"] = {"kind": "forced", "choices": out["choices"]}
        v.update(index=i, replay=rp)
        res["viol"] = v
    return res


def replay(payload):
    from ..core.runner import run_isolated
    if payload.get("part") == "A":
        r = run_isolated(fault_run, (payload["seed"], payload["index"], payload["tier"]), timeout=RUN_TIMEOUT)
        return r["viol"]
    out, v = run_isolated(run_thread_payload, (payload,), timeout=RUN_TIMEOUT)
    return v


def minimise(payload, viol):
    if payload.get("part") == "A":
        return payload
    saved = c09.run_payload
    c09.run_payload = run_thread_payload
    try:
        return c09.minimise(payload, viol)
    finally:
        c09.run_payload = saved
