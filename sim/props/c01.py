"""C01 - write-through: every mutation is in the backend when the call returns (unbuffered)."""
from . import _seq
from ..core import lib
from ..engines import seqgen as G

ID = "C01"
ENGINE = "seqsim"
LEVEL = "exploration"
RUNS = {"quick": 100000, "thorough": 400000}
CHUNK = 250
RULE = ("seeded random traces (1-25 steps) of public mutators/reads issued on the root and on nested children (fresh "
        "navigation and retained handles, depth<=4) of 1-2 unbuffered objects on one resource (an outside writer in a "
        "share of runs), plus a separately configured FAULT-INJECTING share (OSError EIO/ENOSPC/EACCES/EMFILE at a seeded "
        "seam call of a mutator, then a fault-free retry of the same call: the failed call may or may not have been "
        "applied, the backend must hold the previous or the new content, never anything else, and a call that returns "
        "normally must have written), over 6 JSON families x "
        "{dict,list} x write_concern x threading on/off on a real tmpfs file and Redis/MongoDB/Zarr dict/list on stub "
        "stores; after every mutating call the independent observer (raw bytes + own json.loads / stub storage) must "
        "equal the reference model type-strictly. A run is non-trivial if >=1 mutator executed through a nested "
        "handle; distinct = distinct (family, kind, sequence of (op name, handle depth)) hashes.")
ASSUMPTIONS = ["Redis/MongoDB/Zarr are in-process stubs: only the library's glue code is exercised",
               "generated scalars are unique so that ==-equal values of different JSON type never meet in a merge",
               "constructor data= is not a mutating operation (it does not save); covered by C11/C12 instead"]
COMPONENTS = {"real": ["synced_collections (working tree)", "file system (tmpfs /dev/shm)", "json"],
              "stub": ["redis client", "pymongo collection + bson", "zarr group + numcodecs"]}
EXPECT_PROBES = {"quick": [], "thorough": []}


def make_cfg(rs, tier):
    ns = lib.load()
    fam = G.pick(rs, sorted(ns.families))
    cfg = {"prop": ID, "family": fam, "kind": G.pick(rs, ["dict", "list"]), "wc": rs.random() < 0.5,
           "threading": rs.random() < 0.7, "length": rs.choice([3, 6, 12, 25]), "oracles": ["backend", "children"],
           "depth": rs.choice([1, 2, 3]), "uuid_seed": rs.getrandbits(32),
           "nobj": rs.choice([1, 1, 2]), "p_outside": rs.choice([0.0, 0.0, 0.15]), "p_fault": 0.0}
    if ns.families[fam]["store"] == "file" and rs.random() < 0.25:
        # fault-injecting configuration (run separately from the fault-free one): I/O errors inside mutators, then retries
        cfg["p_fault"] = 0.3
        if not (cfg["wc"] or cfg["threading"]):
            cfg["wc"] = True   # only the atomic write modes promise an intact file after a failed save (C08)
    return cfg


def setup(w, rg):
    cfg = w.cfg
    init = None
    if rg.random() < 0.5:
        from ..core.values import gen_value
        init = gen_value(rg, w.fresh, 3, cfg["kind"], 3)
    yield {"t": "new_res", "family": cfg["family"], "kind": cfg["kind"], "init": init}
    for _ in range(cfg["nobj"]):
        yield {"t": "new_obj", "rid": 0, "wc": cfg["wc"]}


def gen_step(w, rg):
    cfg = w.cfg
    if cfg["p_outside"] and rg.random() < cfg["p_outside"]:
        return {"t": "outside", "rid": 0, "edit": G.gen_outside_edit(rg, w, w.res[0], cfg["depth"])}
    hs = G.attached_handles(w)
    if not hs:
        return None
    last = getattr(w, "_last_faulted", None)
    if last is not None:
        # retry the operation that just failed (same arguments), now fault-free
        w._last_faulted = None
        if last["hid"] < len(w.handles) and w.handles[last["hid"]] is not None and w.handles[last["hid"]].state == "attached":
            return {k: v for k, v in last.items() if k not in ("fault", "keep", "hid_new")}
    # (faults only once the resource exists: with a missing file the library keeps its in-memory state by design,
    #  so "applied or not" cannot be decided from the backend)
    if cfg["p_fault"] and w.res[0].disk is not None and rg.random() < cfg["p_fault"]:
        roots = [h for h in hs if not h.path]
        h = G.pick(rg, roots if rg.random() < 0.5 else hs)
        st = G.gen_op_step(rg, w, h, depth=cfg["depth"], mut_weight=1.0, slices=False, keep_p=0.0)
        st["fault"] = {"at": rg.randrange(0, 10), "exc": ["OSError", G.pick(rg, ["EIO", "ENOSPC", "EACCES", "EMFILE"])]}
        w._last_faulted = dict(st)
        return st
    nested = [h for h in hs if h.path]
    h = G.pick(rg, nested) if nested and rg.random() < 0.6 else G.pick(rg, hs)
    if rg.random() < 0.25:
        st = G.gen_navigate_step(rg, w, h)
        if st:
            return st
    return G.gen_op_step(rg, w, h, depth=w.cfg["depth"], mut_weight=0.75, slices=True)


def signature(w, cfg, steps):
    if not w.stats.get("ops_nested"):
        return None
    return _seq.shape_sig(w, cfg, steps, (cfg["kind"],))


def run_one(seed, i, tier):
    return _seq.run_one(__import__(__name__, fromlist=["x"]), seed, i, tier)


def replay(payload):
    return _seq.replay(__import__(__name__, fromlist=["x"]), payload)


def minimise(payload, viol):
    return _seq.minimise(__import__(__name__, fromlist=["x"]), payload, viol)
