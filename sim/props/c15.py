"""C15 - buffer size accounting is exact, bounded by capacity, and returns to zero."""
import sys
from . import _seq, _buf
from ..core import lib, seams
from ..core.values import same
from ..core import model as M
from ..engines.seqsim import World, Violation

ID = "C15"
ENGINE = "seqsim"
LEVEL = "exploration"
RUNS = {"quick": 60000, "thorough": 400000}
CHUNK = 250
RULE = ("seeded traces over 1-3 JSON files (one object each, nested handles) of one buffered family with arbitrary "
        "nesting of obj.buffered / buffer_backend(capacity) and set_buffer_capacity, capacities from 'huge' down to 0 "
        "and below one document. Oracles after EVERY step (op, enter, exit, set_buffer_capacity): "
        "size <= capacity; size == 0 whenever no buffered context is active; capacity == the model's capacity stack "
        "(restored at each backend-wide exit); exactness: size == recomputation from the buffered set (serialized: sum "
        "of len(json.dumps(model content).encode()) over the files the class holds in its buffer; shared-memory: "
        "number of held files whose buffered copy was written to and not yet flushed), where 'held' is read (never "
        "written) from Class._buffer and cross-checked black-box (every file whose disk content differs from its "
        "logical content must be held); forced flushes lose nothing (observer vs model). Fault kinds: forced_flush, and (separate share of runs) io_error injected "
        "into the flush of a context exit - the exit may raise and lose that file's buffered data, the accounting oracles must still hold. "
        "Non-trivial = size was non-zero at some step; distinct = step-shape hashes.")
ASSUMPTIONS = ["the exactness oracle reads the class attribute _buffer (key set / modified flags); if it does not exist "
               "that oracle is skipped and probes report it", "one object per file; no outside writer"]
COMPONENTS = {"real": ["synced_collections (working tree)", "tmpfs file system"], "stub": []}
EXPECT_PROBES = {"quick": ["size_nonzero", "exactness_checked"], "thorough": ["size_nonzero", "exactness_checked", "forced_flush_observed"]}


class W(World):
    def __init__(self, cfg):
        super().__init__(cfg)
        self.caps = {}  # cls -> model capacity

    def classes(self):
        return sorted({o.cls for o in self.objs if hasattr(o.cls, "get_current_buffer_size")}, key=lambda c: c.__name__)

    def model_cap(self, cls):
        if cls not in self.caps:
            self.caps[cls] = cls.get_buffer_capacity()
        return self.caps[cls]

    def st_enter(self, st):
        if st["ctx"] == "backend":
            cls = self.cls_of(st["family"], st["kind"])
            before = self.model_cap(cls)
            if st.get("cap") is not None:
                self.caps[cls] = st["cap"]
            super().st_enter(st)
            self.ctx[-1]["model_cap_before"] = before
        else:
            super().st_enter(st)

    def after_exit(self, c, cls, flushed, res, pre):
        if c["kind"] == "backend" and c.get("cap") is not None:
            self.caps[cls] = c["model_cap_before"]
        super().after_exit(c, cls, flushed, res, pre)

    def after_faulted_exit(self, c, cls):
        if c["kind"] == "backend" and c.get("cap") is not None:
            self.caps[cls] = c["model_cap_before"]

    def faulted_op(self, st, r, ob, h, name, args, trial, mres):
        """An I/O error hits one seam call of an operation INSIDE a buffered context (first access: read / stat of the file;
        forced flush: write).  The operation may fail and may or may not have been applied, so the resource becomes
        "uncertain": its content is no longer compared until the contexts have exited (then the model follows the disk),
        but the bookkeeping oracles (size exact w.r.t. what the buffer really holds, size <= capacity, 0 outside contexts,
        capacity) must hold as after any other operation."""
        from ..core.values import plain
        if not (hasattr(ob.o, "buffered") and self.is_buffered(ob)):
            return super().faulted_op(st, r, ob, h, name, args, trial, mres)
        self.seams.arm({"at": st["fault"]["at"], "exc": tuple(st["fault"]["exc"])})
        try:
            self.lib_op(h.node, name, args, st.get("attr", False))
        finally:
            fired = bool(self.seams.fired)
            del self.seams.fired[:]
            self.seams.disarm()
        self.stat("ops")
        if fired:
            self.stat("fault_io_error")
            self.probe("fault_fired_in_buffered_op")
        r.uncertain = True       # left alone until the contexts exit; then the model follows the disk (World.resync_uncertain)
        self.buffered_touch(r, ob, True, True)
        for x in self.handles:
            if x is not None and x.path and self.objs[x.oid].rid == r.rid and x.state == "attached":
                x.state = "dropped"
        self.check_bufsize("after an operation with an injected I/O error inside a buffered context")

    def st_setcap(self, st):
        cls = self.cls_of(st["family"], st["kind"])
        self.model_cap(cls)
        self.caps[cls] = st["n"]
        super().st_setcap(st)

    def differs(self, r, obs):
        if obs is seqsim_ABSENT:
            return r.model not in ({}, [])   # a missing file is equivalent to empty logical content
        return not same(obs, r.model)

    def check_bufsize(self, what):
        for cls in self.classes():
            size = cls.get_current_buffer_size()
            cap = cls.get_buffer_capacity()
            if cls in self.caps and cap != self.caps[cls]:
                raise Violation("capacity_wrong", f"{what}: {cls.__name__}.get_buffer_capacity()={cap}, expected {self.caps[cls]}")
            if size:
                self.probe("size_nonzero")
            if size > cap:
                raise Violation("size_exceeds_capacity", f"{what}: {cls.__name__} buffer size {size} > capacity {cap}")
            if size < 0:
                raise Violation("size_negative", f"{what}: {cls.__name__} buffer size {size}")
            active = self.backend_depth.get(cls, 0) > 0 or any(o.depth > 0 for o in self.objs if o.cls is cls)
            if not active and size != 0:
                raise Violation("size_not_zero_outside_contexts", f"{what}: {cls.__name__} buffer size {size} with no buffered context active")
            buf = cls.__dict__.get("_buffer")
            if not isinstance(buf, dict):
                self.probe("exactness_skipped_no__buffer")
                continue
            held = set(buf)
            mine = [r for r in self.res if r.store == "file" and self.cls_of(r.family, r.kind) is cls]
            # black-box cross-check: a file whose disk content differs from its logical content must be held
            for r in mine:
                if getattr(r, "uncertain", False):
                    continue
                obs = self.observe(r)
                differs = self.differs(r, obs)
                if differs and r.ident not in held:
                    raise Violation("unflushed_file_not_in_buffer", f"{what}: resource {r.rid} differs from disk but is not buffered")
            if self.cfg["strategy"] == "serialized":
                expect = 0
                for r in mine:
                    if r.ident in held and getattr(r, "uncertain", False):
                        expect += len(buf[r.ident].get("contents") or b"")     # (only self-consistency can be demanded here)
                    elif r.ident in held:
                        expect += len(seams.REAL["dumps"](r.model).encode())
            else:
                expect = 0
                for r in mine:
                    if r.ident in held and buf[r.ident].get("modified"):
                        expect += 1
                # cross-check the flag black-box: a held file that differs from disk must be flagged
                for r in mine:
                    if r.ident in held and not buf[r.ident].get("modified") and not getattr(r, "uncertain", False):
                        obs = self.observe(r)
                        if self.differs(r, obs):
                            raise Violation("modified_flag_missing", f"{what}: resource {r.rid} differs from disk but is not flagged modified")
            self.probe("exactness_checked")
            if size != expect:
                raise Violation("size_inexact", f"{what}: {cls.__name__} reports size {size}, recomputation from the buffered set gives {expect} "
                                f"(held: {sorted(os_base(x) for x in held)})")


def os_base(p):
    import os
    return os.path.basename(p)


from ..engines.seqsim import ABSENT as seqsim_ABSENT  # noqa: E402

WorldClass = W


def make_cfg(rs, tier):
    cfg = _buf.base_cfg(rs, ID)
    cfg["capmode"] = rs.choice(["small", "small", "huge"])
    cfg["forced_flush_possible"] = cfg["capmode"] == "small"
    cfg["oracles"] = ["backend", "result", "bufsize"]
    # fault-injecting configuration (separate share of runs): an OSError hits the flush of a context exit
    cfg["p_fault"] = 0.5 if rs.random() < 0.25 else 0.0
    if cfg["p_fault"]:
        cfg["capmode"], cfg["forced_flush_possible"] = "huge", False
        if not (cfg["wc"] or cfg["threading"]):
            cfg["wc"] = True
    return cfg


def setup(w, rg):
    yield from _buf.setup(w, rg)
    cfg = w.cfg
    fam = cfg["family"]
    if fam.endswith("Attr") and not cfg.get("p_fault") and rg.random() < 0.3:
        # one more file of the PARENT class family (BufferedJSONAttrDict derives from BufferedJSONDict ...): every concrete
        # class has its own buffer and its own size counter, whatever its ancestors are doing at the same time
        from ..core.values import gen_value
        k = cfg["kinds"][0]
        yield {"t": "new_res", "family": fam[:-4], "kind": k, "init": gen_value(rg, w.fresh, 2, k, 3)}
        yield {"t": "new_obj", "rid": cfg["nres"], "wc": cfg["wc"]}
        w.probe("parent_family_resource")


def gen_step(w, rg):
    st = _buf.gen_step(w, rg)
    # only the OUTERMOST exit is faulted (no context remains, so every oracle has a crisp expectation), default capacity
    if st and st["t"] == "exit" and len(w.ctx) == 1 and w.cfg.get("p_fault") and rg.random() < w.cfg["p_fault"]:
        st["fault"] = {"at": rg.randrange(0, 8), "exc": ["OSError", rg.choice(["EIO", "ENOSPC", "EACCES", "EMFILE"])]}
    elif (st and st["t"] == "op" and w.ctx and w.cfg.get("p_fault") and not st.get("keep") and rg.random() < 0.2
          and w.handles[st["hid"]] is not None and w.is_buffered(w.objs[w.handles[st["hid"]].oid])
          and w.res[w.objs[w.handles[st["hid"]].oid].rid].disk is not None):
        # an I/O error inside an operation of a buffered collection (typically its first buffered access: read + stat)
        st["fault"] = {"at": rg.randrange(0, 6), "exc": ["OSError", rg.choice(["EIO", "EACCES", "EMFILE", "ENOTDIR"])]}
    return st


def signature(w, cfg, steps):
    if not w.probes.get("size_nonzero"):
        return None
    return _seq.shape_sig(w, cfg, steps, (cfg["capmode"], cfg["strategy"]))


_me = sys.modules[__name__]
run_one = lambda seed, i, tier: _seq.run_one(_me, seed, i, tier)  # noqa
replay = lambda payload: _seq.replay(_me, payload)  # noqa
minimise = lambda payload, viol: _seq.minimise(_me, payload, viol)  # noqa
