"""Shared generator for the unbuffered multi-handle / outside-writer properties (C02, C04, C16, C17, C18)."""
from . import _seq
from ..core import lib
from ..core.values import gen_value
from ..engines import seqgen as G
from ..engines.seqsim import World


class StaleWorld(World):
    """Adds the stale-handle probes: who changed the resource since an object last reloaded."""

    def __init__(self, cfg):
        super().__init__(cfg)
        self.changed_at = {}   # rid -> (step, by)
        self.synced_at = {}    # oid -> step

    def st_op(self, st):
        hid = st["hid"]
        if hid < len(self.handles) and self.handles[hid] is not None:
            h = self.handles[hid]
            ob = self.objs[h.oid]
            ch = self.changed_at.get(ob.rid)
            stale = ch is not None and ch[1] != ob.oid and ch[0] > self.synced_at.get(ob.oid, -1)
            if stale and h.state == "attached":
                from ..core import model as M
                if M.is_mutator(h.kind, st["name"]):
                    self.probe("stale_handle_written")
                    if h.path:
                        self.probe("stale_child_handle_written")
                else:
                    self.probe("stale_handle_read")
            before = self.stats.get("op_mut", 0)
            super().st_op(st)
            self.synced_at[ob.oid] = self.nsteps
            if self.stats.get("op_mut", 0) > before:
                self.changed_at[ob.rid] = (self.nsteps, ob.oid)
        else:
            super().st_op(st)

    def after_outside(self, r, new):
        super().after_outside(r, new)
        self.changed_at[r.rid] = (self.nsteps, "outside")


def base_cfg(rs, pid, families=None, p_list=0.4):
    ns = lib.load()
    fams = families or sorted(ns.families)
    return {"prop": pid, "family": G.pick(rs, fams), "kind": "list" if rs.random() < p_list else "dict",
            "wc": rs.random() < 0.5, "threading": rs.random() < 0.7, "length": rs.choice([4, 8, 14, 25]),
            "depth": rs.choice([1, 2, 3]), "uuid_seed": rs.getrandbits(32),
            "nobj": rs.choice([1, 2, 2, 3]), "p_outside": rs.choice([0.0, 0.15, 0.3]),
            "p_nav": rs.choice([0.15, 0.3]), "p_mut": rs.choice([0.3, 0.6, 0.8])}


def setup(w, rg):
    cfg = w.cfg
    init = gen_value(rg, w.fresh, 3, cfg["kind"], 3) if rg.random() < 0.7 else None
    yield {"t": "new_res", "family": cfg["family"], "kind": cfg["kind"], "init": init}
    for _ in range(cfg["nobj"]):
        yield {"t": "new_obj", "rid": 0, "wc": cfg["wc"]}


def gen_step(w, rg, slices=True, reads=None, muts=None, allow_removed=False):
    cfg = w.cfg
    r = w.res[0]
    if cfg["p_outside"] and rg.random() < cfg["p_outside"]:
        return {"t": "outside", "rid": 0, "edit": G.gen_outside_edit(rg, w, r, cfg["depth"])}
    hs = G.attached_handles(w, allow_removed=allow_removed)
    if not hs:
        return None
    nested = [h for h in hs if h.path]
    h = G.pick(rg, nested) if nested and rg.random() < 0.6 else G.pick(rg, hs)
    if h.state == "removed":
        st = G.gen_op_step(rg, w, _fake_attached(w, h), depth=1, mut_weight=1.0)
        return st
    if cfg.get("p_synced_operand") and rg.random() < cfg["p_synced_operand"]:
        # comparison against ANOTHER synced handle (often of another object that is stale w.r.t. the backend)
        others = [x for x in hs if x.kind == h.kind and x is not h]
        if others:
            o = G.pick(rg, [x for x in others if x.oid != h.oid] or others)
            from ..core.values import get_path
            name = G.pick(rg, ["eq", "ne"] if h.kind == "dict" else ["eq", "ne", "lt", "le", "gt", "ge"])
            if name in ("lt", "le", "gt", "ge"):
                a, b = get_path(r.model, h.path), get_path(w.res[w.objs[o.oid].rid].model, o.path)
                if not (G.comparable(a) and G.comparable(b)):
                    name = "eq"
            w.probe("synced_operand")
            return {"t": "op", "hid": h.hid, "name": name, "args": [{"$handle": o.hid}]}
    if cfg.get("p_handle_store") and rg.random() < cfg["p_handle_store"]:
        # store a synced node (a copy is expected) into some position
        from ..core.values import get_path
        src = G.pick(rg, hs)
        c = get_path(r.model, h.path)
        operand = {"$handle": src.hid}
        if h.kind == "dict":
            name, args = G.pick(rg, [("setitem", [G.gen_key(rg, w.fresh, c, 0.3), operand]), ("update", [{G.gen_key(rg, w.fresh, c, 0.3): operand}])])
        else:
            name, args = G.pick(rg, [("append", [operand]), ("insert", [rg.randint(0, len(c)), operand])])
        w.probe("handle_store")
        return {"t": "op", "hid": h.hid, "name": name, "args": args}
    if rg.random() < cfg["p_nav"]:
        st = G.gen_navigate_step(rg, w, h)
        if st:
            return st
    return G.gen_op_step(rg, w, h, depth=cfg["depth"], mut_weight=cfg["p_mut"], slices=slices, reads=reads, muts=muts,
                         attr_p=0.3 if lib.load().families[cfg["family"]]["attr"] else 0.0)


def _fake_attached(w, h):
    return h
