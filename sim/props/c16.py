"""C16 - values are copied in and out: no aliasing with user-held objects."""
import sys
from . import _seq, _unbuf
from ..core import model as M
from ..core.values import contains_synced, get_path, has_path, jsonable, kind_of, deep
from ..engines import seqgen as G
from ..engines.seqsim import Skip, Violation

ID = "C16"
ENGINE = "seqsim"
LEVEL = "exploration"
RUNS = {"quick": 60000, "thorough": 400000}
CHUNK = 250
RULE = ("seeded traces on 1-2 objects (+retained and REMOVED child handles) in which the simulated user keeps every "
        "container argument it passed in and every container result it got back ((), values(), items(), pop, "
        "popitem, getitem-before-del) and later mutates every container reachable from them (append/insert/clear/"
        "setitem at every depth), immediately or several steps later; also a[k2]=a[k1], b[k]=a.child, "
        "lst.append(other_root) with synced operands. Oracle: results of ()/values()/items() contain no synced "
        "node and are plain built-ins at every depth; after the user's mutation backend (observer) and logical "
        "content (model) are unchanged; mutators through a removed handle change nothing; a stored synced node is an "
        "independent copy. No schedule/fault dimension. Non-trivial = >=1 user mutation of a held nested container "
        "or op through a removed handle; distinct = step-shape hashes.")
ASSUMPTIONS = ["Redis/MongoDB/Zarr are in-process stubs", "no schedule or fault is involved in this property"]
COMPONENTS = {"real": ["synced_collections (working tree)", "tmpfs file system"], "stub": ["redis", "mongo+bson", "zarr+numcodecs"]}
EXPECT_PROBES = {"quick": ["user_mutation", "removed_handle_mutated", "synced_operand_stored"],
                 "thorough": ["user_mutation", "removed_handle_mutated", "synced_operand_stored"]}


def _mutate_all(x, depth=0):
    """Mutate every plain container reachable from x. Returns number of containers mutated."""
    n = 0
    if type(x) is dict:
        for v in list(x.values()):
            n += _mutate_all(v, depth + 1)
        x["__user__"] = [depth]
        for k in list(x):
            if k != "__user__" and not isinstance(x[k], (dict, list)):
                x[k] = "changed-by-user"
        n += 1
    elif type(x) is list:
        for v in list(x):
            n += _mutate_all(v, depth + 1)
        x.append({"__user__": depth})
        if len(x) > 1:
            x[0] = "changed-by-user" if not isinstance(x[0], (dict, list)) else x[0]
        n += 1
    elif isinstance(x, (tuple,)):
        for v in x:
            n += _mutate_all(v, depth + 1)
    elif hasattr(x, "mapping") or type(x).__name__ in ("dict_values", "dict_items", "dict_keys"):
        for v in list(x):
            n += _mutate_all(v, depth + 1)
    return n


class W(_unbuf.StaleWorld):
    def lib_op(self, node, name, args, attr=False):
        res = super().lib_op(node, name, args, attr)
        hold = getattr(self, "_hold", False)
        if hold:
            self.userrefs.append({"args": args, "res": None if isinstance(res, M.Raised) else res, "name": name})
        if not isinstance(res, M.Raised) and name in ("call", "values", "items"):
            if contains_synced(list(res) if name != "call" else res, self.SC):
                raise Violation("synced_node_in_result", f"{name}() returned data containing a synced collection: {res!r}")
            self._check_plain(res if name == "call" else list(res), name)
        return res

    def _check_plain(self, x, name):
        if isinstance(x, (dict, list, tuple)):
            if type(x) not in (dict, list, tuple):
                raise Violation("result_not_plain", f"{name}() returned a {type(x).__name__}, not a plain built-in")
            for v in (x.values() if isinstance(x, dict) else x):
                self._check_plain(v, name)

    def st_op(self, st):
        self._hold = bool(st.get("hold"))
        if st["hid"] < len(self.handles) and self.handles[st["hid"]] is not None and self.handles[st["hid"]].state == "removed":
            self.probe("removed_handle_mutated")
        if any(isinstance(a, dict) and "$handle" in a for a in _flat(st.get("args", []))):
            self.probe("synced_operand_stored")
        try:
            super().st_op(st)
        finally:
            self._hold = False

    def st_usermut(self, st):
        i = st["ref"]
        if i >= len(self.userrefs):
            raise Skip()
        ref = self.userrefs[i]
        n = 0
        for a in ref["args"]:
            if not isinstance(a, self.SC):
                n += _mutate_all(a)
        r = ref["res"]
        if r is not None and not isinstance(r, self.SC):
            n += _mutate_all(r)
        if n:
            self.probe("user_mutation", n)
        self.check_backend(what="after the user mutated objects it had passed in / got back")


def _flat(a):
    out = []
    for x in a:
        out.append(x)
        if isinstance(x, list):
            out.extend(_flat(x))
        elif isinstance(x, dict):
            out.extend(_flat(list(x.values())))
    return out


WorldClass = W


def make_cfg(rs, tier):
    cfg = _unbuf.base_cfg(rs, ID)
    cfg["nobj"] = rs.choice([1, 2])
    cfg["p_outside"] = 0.0
    cfg["p_mut"] = 0.6
    cfg["oracles"] = ["backend", "result"]
    cfg["depth"] = rs.choice([2, 3])
    # a share of runs on buffered families executes inside obj.buffered (the shared-memory strategy keeps caller data
    # alive in the buffer instead of re-reading the file, so aliasing survives there)
    from ..core import lib
    cfg["in_ctx"] = lib.load().families[cfg["family"]]["buffered"] and rs.random() < 0.5
    if cfg["in_ctx"]:
        cfg["nobj"] = 1
    return cfg


def setup(w, rg):
    yield from _unbuf.setup(w, rg)
    if w.cfg.get("in_ctx"):
        yield {"t": "enter", "ctx": "obj", "oid": 0}


def gen_step(w, rg):
    roll = rg.random()
    if w.cfg.get("in_ctx") and roll > 0.97 and not w.ctx:
        return {"t": "enter", "ctx": "obj", "oid": 0}
    if w.cfg.get("in_ctx") and roll > 0.94 and w.ctx:
        return {"t": "exit"}
    if w.userrefs and roll < 0.25:
        return {"t": "usermut", "ref": rg.randrange(len(w.userrefs))}
    hs = G.attached_handles(w)
    if not hs:
        return None
    if roll < 0.40:
        # store a synced node (another handle) into some position
        h = G.pick(rg, hs)
        src = G.pick(rg, hs)
        r = w.res[0]
        c = get_path(r.model, h.path)
        operand = {"$handle": src.hid}
        if rg.random() < 0.3:
            operand = {"w": operand} if rg.random() < 0.5 else [operand]
        if rg.random() < 0.3:
            # tuples (stored as lists) holding mutable containers, also next to a synced operand
            operand = {"$tuple": [[w.fresh.int()], {"t": w.fresh.int()}, operand if rg.random() < 0.5 else w.fresh.int()]}
        # (open finding C16-F1) merge paths only get synced operands that belong to another root object
        safe = [x for x in hs if x.oid != h.oid]
        bsrc = G.pick(rg, safe) if safe else None
        bare = {"$handle": bsrc.hid} if bsrc is not None else w.fresh.int()
        if h.kind == "dict":
            # (open finding C16-F1: wrapped synced operands only through non-merge entry points)
            name, args = G.pick(rg, [("setitem", [G.gen_key(rg, w.fresh, c, 0.3), operand]),
                                     ("update", [{G.gen_key(rg, w.fresh, c, 0.3): bare}]),
                                     ("update_kwargs", [None, {"kw": bare, "kw2": [w.fresh.int(), {"z": w.fresh.int()}]}]),
                                     ("setdefault", [w.fresh.key(), operand])])
        else:
            name, args = G.pick(rg, [("append", [operand]), ("insert", [rg.randint(0, len(c)), operand]),
                                     ("extend", [[operand]]), ("iadd", [[operand]])])
            if c and rg.random() < 0.3:
                name, args = "setitem", [rg.randrange(len(c)), operand]
        return {"t": "op", "hid": h.hid, "name": name, "args": args, "hold": True}
    st = _unbuf.gen_step(w, rg, allow_removed=True)
    if st and st["t"] == "op":
        st["hold"] = True
    return st


def signature(w, cfg, steps):
    if not (w.probes.get("user_mutation") or w.probes.get("removed_handle_mutated")):
        return None
    return _seq.shape_sig(w, cfg, steps, (cfg["kind"],))


_me = sys.modules[__name__]
run_one = lambda seed, i, tier: _seq.run_one(_me, seed, i, tier)  # noqa
replay = lambda payload: _seq.replay(_me, payload)  # noqa
minimise = lambda payload, viol: _seq.minimise(_me, payload, viol)  # noqa
