"""C12 - every JSON value is accepted and round-trips exactly (fresh object, fresh position)."""
import itertools
import sys
from . import _seq
from ..core import lib
from ..core.values import gen_value, stream, deep
from ..engines import seqgen as G
from ..engines.seqsim import World

ID = "C12"
ENGINE = "seqsim"
LEVEL = "exploration"
RUNS = {"quick": 60000, "thorough": 300000}
CHUNK = 250
RULE = ("value x entry point x class: a JSON value v is stored at a FRESH position through one mutating entry point "
        "(setitem, setdefault, update in 3 call forms, reset, append, extend, insert, +=, slice assignment, "
        "constructor data= followed by a mutator) on the root or a nested child, then every object is dropped "
        "(restart) and a fresh object on the same resource reads it back; oracle: accepted without error, fresh "
        "read == stored value with the same JSON type at every leaf, and the independent observer agrees. Values: "
        "exhaustive enumeration of all JSON values with <=3 nodes over the leaf alphabet {None,True,False,0,1,-1,1.0,"
        "-0.0,0.5,'','a'} (run index < size of that set), then seeded random values (depth<=6, <=40 nodes) and "
        "boundary scalars (2**63+-1, 2**70, -2**200, 5e-324, max float, empty key, astral/escape-heavy strings, NUL, "
        "number-like keys). No schedule/fault dimension (clean restart only). Non-trivial = value has >=2 nodes or a "
        "boundary scalar; distinct = (class, entry point, value) hashes.")
ASSUMPTIONS = ["MongoDB stub does not model BSON's 64-bit integer limit: integers beyond 64 bits are NOT decided for real MongoDB",
               "Redis/MongoDB/Zarr are in-process stubs (Zarr: JSON object codec stub)",
               "integers are bounded by CPython's int->str digit limit (4300 digits); floats are finite"]
COMPONENTS = {"real": ["synced_collections (working tree)", "tmpfs file system", "json"], "stub": ["redis", "mongo+bson", "zarr+numcodecs"]}
EXPECT_PROBES = {"quick": [], "thorough": []}

LEAVES = [None, True, False, 0, 1, -1, 1.0, -0.0, 0.5, "", "a"]
BOUNDARY = [2**63 - 1, 2**63, 2**63 + 1, -2**63 - 1, 2**70, -2**200, 10**300, 5e-324, 1.7976931348623157e308,
            -1.7976931348623157e308, 1e-7, 123456789.123456789, "\U0001d11e\U0001f600", "\"\\\n\t\r\b\f/", "\u0000",
            "  ", "é中", " ", "1", "null", "true", "a" * 300, 0, 1, True, False, None, 1.0, -0.0,
            "caf\udce9.txt", "\ud800"]   # lone surrogates (os.fsdecode of a non-UTF-8 name): legal str, written as JSON escapes
KEYS = ["", " ", "1", "null", "-0", "a b", "é", "\U0001f600", "k", "\"", "\\", "\n", "a/b", "0.5", "True", "k\udc80"]


def small_values():
    """All JSON values with <= 3 nodes over LEAVES."""
    out = list(LEAVES)
    out += [[], {}]
    for a in LEAVES:
        out.append([a])
        out.append({"": a})
        out.append({"k": a})
    for a, b in itertools.product(LEAVES, repeat=2):
        out.append([a, b])
        out.append({"a": a, "": b})
    for a in LEAVES:
        out += [[[a]], {"k": [a]}, [{"k": a}], {"k": {"": a}}]
    out += [[[]], [{}], {"k": []}, {"k": {}}, [[], []], [{}, []]]
    return out


SMALL = small_values()
ENTRY_DICT = ["setitem", "setdefault", "update", "update_pairs", "update_kwargs", "reset", "ctor"]
ENTRY_LIST = ["append", "extend", "insert", "iadd", "setitem_slice", "setitem", "reset", "ctor"]


def rand_value(rg, depth):
    r = rg.random()
    if depth <= 0 or r < 0.35:
        r2 = rg.random()
        if r2 < 0.3:
            return G.pick(rg, BOUNDARY)
        if r2 < 0.5:
            return rg.choice([rg.randint(-10**6, 10**6), rg.getrandbits(rg.randint(1, 300)) * rg.choice([1, -1])])
        if r2 < 0.7:
            return rg.choice([rg.random() * 10 ** rg.randint(-300, 300), float(rg.randint(-5, 5))])
        if r2 < 0.9:
            return "".join(chr(rg.choice([rg.randint(32, 126), rg.randint(0, 31), rg.randint(0xa0, 0xd7ff), rg.randint(0x10000, 0x10ffff)]))
                           for _ in range(rg.randint(0, 6)))
        return rg.choice([None, True, False])
    n = rg.randint(0, 4)
    if r < 0.7:
        return {(G.pick(rg, KEYS) if rg.random() < 0.6 else "k%d" % rg.randint(0, 99)): rand_value(rg, depth - 1) for _ in range(n)}
    return [rand_value(rg, depth - 1) for _ in range(n)]


def nodes(v):
    if isinstance(v, dict):
        return 1 + sum(nodes(x) for x in v.values())
    if isinstance(v, list):
        return 1 + sum(nodes(x) for x in v)
    return 1


def strip_dots(v):
    if isinstance(v, dict):
        return {k.replace(".", "_"): strip_dots(x) for k, x in v.items()}
    if isinstance(v, list):
        return [strip_dots(x) for x in v]
    return v


def make_cfg(rs, tier):
    ns = lib.load()
    return {"prop": ID, "family": G.pick(rs, sorted(ns.families)), "kind": G.pick(rs, ["dict", "list"]),
            "wc": rs.random() < 0.5, "threading": rs.random() < 0.7, "length": 0, "oracles": ["backend", "result", "accept", "children"],
            "uuid_seed": rs.getrandbits(32), "nested": rs.random() < 0.4}


class W(World):
    pass


WorldClass = W


def build(seed, i, cfg, rg):
    """The whole trace of run i."""
    if i < len(SMALL) * 4:
        v = deep(SMALL[i % len(SMALL)])
    else:
        v = rand_value(rg, rg.choice([0, 1, 2, 4, 6]))
        while nodes(v) > 40:
            v = rand_value(rg, 3)
    kind = cfg["kind"]
    entry = G.pick(rg, ENTRY_DICT if kind == "dict" else ENTRY_LIST)
    steps = []
    special = rg.random()
    ns = lib.load()
    buffered_family = ns.families[cfg["family"]]["buffered"]
    if special < 0.10:
        # TYPED PAIR: an equal-but-differently-typed value assigned over the stored one (plain assignment, no merge);
        # for buffered families the second assignment happens inside obj.buffered, so only the flush can carry it
        a, b = G.pick(rg, [(1, True), (True, 1), (0, False), (False, 0), (2, 2.0), (3.0, 3), (1.0, True), (2 ** 70, float(2 ** 70)), (-0.0, 0), (0, -0.0)])
        steps.append({"t": "new_res", "family": cfg["family"], "kind": kind, "init": {"p": a} if kind == "dict" else [a]})
        steps.append({"t": "new_obj", "rid": 0, "wc": cfg["wc"]})
        if buffered_family and rg.random() < 0.7:
            steps.append({"t": "enter", "ctx": "obj" if rg.random() < 0.5 else "backend", "oid": 0, "family": cfg["family"], "kind": kind})
        steps.append({"t": "op", "hid": 0, "name": "setitem", "args": ["p" if kind == "dict" else 0, b]})
        if steps[-2]["t"] == "enter":
            steps.append({"t": "exit"})
        steps.append({"t": "restart", "rid": 0, "wc": cfg["wc"]})
        steps.append({"t": "op_last_root", "name": "call"})
        return steps, [a, b], "typed_pair"
    if special < 0.16 and kind == "dict":
        # a stored null is a value: setdefault must not replace it
        steps.append({"t": "new_res", "family": cfg["family"], "kind": "dict", "init": None})
        steps.append({"t": "new_obj", "rid": 0, "wc": cfg["wc"]})
        steps.append({"t": "op", "hid": 0, "name": "setitem", "args": ["nul", None]})
        steps.append({"t": "op", "hid": 0, "name": "setdefault", "args": ["nul", v if v is not None else 5]})
        steps.append({"t": "restart", "rid": 0, "wc": cfg["wc"]})
        steps.append({"t": "op_last_root", "name": "call"})
        return steps, v, "null_then_setdefault"
    if special < 0.26 and isinstance(v, (dict, list)):
        # a container stored OVER an existing container (same or other kind) through the merge entry points
        old = G.pick(rg, [{}, [], {"o": 1.5}, [2.5]])
        init = {"pos": old, "z": 0.5} if kind == "dict" else [old, 0.5]
        steps.append({"t": "new_res", "family": cfg["family"], "kind": kind, "init": init})
        steps.append({"t": "new_obj", "rid": 0, "wc": cfg["wc"]})
        if kind == "dict":
            how = G.pick(rg, [("update", [{"pos": v}]), ("reset", [{"pos": v, "z": 0.5}]), ("setitem", ["pos", v]), ("update_kwargs", [None, {"pos": v}])])
        else:
            how = G.pick(rg, [("reset", [[v, 0.5]]), ("setitem", [0, v])])
        steps.append({"t": "op", "hid": 0, "name": how[0], "args": how[1]})
        steps.append({"t": "restart", "rid": 0, "wc": cfg["wc"]})
        steps.append({"t": "op_last_root", "name": "call"})
        return steps, v, "over_container:" + how[0]
    init = None
    hid = 0
    path_kind = kind
    if cfg["nested"] and entry not in ("ctor",):
        # store into a nested child of the other or same kind
        ck = G.pick(rg, ["dict", "list"])
        init = {"n": {} if ck == "dict" else []} if kind == "dict" else [{} if ck == "dict" else []]
        path_kind = ck
        entry = G.pick(rg, [e for e in (ENTRY_DICT if ck == "dict" else ENTRY_LIST) if e != "ctor"])
    steps.append({"t": "new_res", "family": cfg["family"], "kind": kind, "init": init})
    if entry == "ctor":
        data = {"v": v} if kind == "dict" else [v]
        steps.append({"t": "new_obj_data", "rid": 0, "wc": cfg["wc"], "data": data})
        # constructor data is not saved by itself; a mutator at another position saves it
        steps.append({"t": "op", "hid": 0, "name": "setitem", "args": ["other", 5]} if kind == "dict"
                     else {"t": "op", "hid": 0, "name": "append", "args": [5]})
    else:
        steps.append({"t": "new_obj", "rid": 0, "wc": cfg["wc"]})
        if init is not None:
            steps.append({"t": "op", "hid": 0, "name": "getitem", "args": ["n" if kind == "dict" else 0], "keep": True})
            hid = 1
        key = G.pick(rg, KEYS)
        if lib.load().families[cfg["family"]]["attr"]:
            key = key.replace(".", "_")
        if entry == "setitem" and path_kind == "dict":
            a = ("setitem", [key, v])
        elif entry == "setdefault":
            a = ("setdefault", [key, v])
        elif entry == "update":
            a = ("update", [{key: v}])
        elif entry == "update_pairs":
            a = ("update_pairs", [[[key, v]]])
        elif entry == "update_kwargs":
            a = ("update_kwargs", [None, {"kw": v}])
        elif entry == "reset":
            a = ("reset", [({key: v} if path_kind == "dict" else [v, v])])
        elif entry == "append":
            a = ("append", [v])
        elif entry == "extend":
            a = ("extend", [[v, 7]])
        elif entry == "iadd":
            a = ("iadd", [[v]])
        elif entry == "insert":
            a = ("insert", [0, v])
        elif entry == "setitem_slice":
            a = ("setitem", [{"$slice": [0, 0, None]}, [v]])
        else:  # list setitem at an existing index that holds a fresh placeholder string
            steps.append({"t": "op", "hid": hid, "name": "append", "args": ["placeholder"]})
            a = ("setitem", [0, v])
        steps.append({"t": "op", "hid": hid, "name": a[0], "args": a[1]})
        # a stored container must itself be a live part of the collection: navigate into it and store once more
        if isinstance(v, (dict, list)) and a[0] in ("setitem", "setdefault", "update", "append", "insert", "iadd", "extend") \
                and not isinstance(a[1][0], dict):
            pos = a[1][0] if a[0] in ("setitem", "setdefault") else (key if a[0] == "update" else (0 if a[0] in ("insert", "extend") else -1))
            if a[0] == "setitem" and path_kind == "list":
                pos = 0
            nh = 2 if init is not None else 1
            steps.append({"t": "op", "hid": hid, "name": "getitem", "args": [pos], "keep": True, "hid_new": nh})
            steps.append({"t": "op", "hid": nh, "name": "setitem", "args": ["inner", 99]} if isinstance(v, dict)
                         else {"t": "op", "hid": nh, "name": "append", "args": [99]})
    steps.append({"t": "restart", "rid": 0, "wc": cfg["wc"]})
    steps.append({"t": "op_last_root", "name": "call"})
    return steps, v, entry


def _st_new_obj_data(self, st):
    r = self.res[st["rid"]]
    ob = self.add_object(st["rid"], st.get("wc", False), data=deep(st["data"]))
    from ..core import model as M
    from ..engines.seqsim import Violation
    if isinstance(ob, M.Raised):
        raise Violation("rejected_valid", f"constructor rejected data: {ob!r}")
    r.model = deep(st["data"])  # logical content now (not saved yet: disk unchanged)


def _st_op_last_root(self, st):
    alive = [ob for ob in self.objs if ob.alive]
    self.st_op({"t": "op", "hid": alive[-1].root_hid, "name": st["name"], "args": []})


W.st_new_obj_data = _st_new_obj_data
W.st_op_last_root = _st_op_last_root


def run_one(seed, i, tier):
    from ..core.values import digest, jsonable
    from ..engines.seqsim import Violation
    rs = stream(seed, ID, i, "cfg")
    cfg = make_cfg(rs, tier)
    rg = stream(seed, ID, i, "gen")
    steps, v, entry = build(seed, i, cfg, rg)
    if lib.load().families[cfg["family"]]["attr"]:
        steps = strip_dots(steps)
        v = strip_dots(v)
    w = W(cfg)
    viol = None
    try:
        try:
            for st in steps:
                w.step(st)
            w.finish()
        except Violation as e:
            viol = {"kind": e.kind, "msg": e.msg}
    finally:
        w.close()
    res = {"viol": None, "probes": w.probes, "stats": w.stats, "steps": w.nsteps, "faults": {"restart": 1}}
    if nodes(v) >= 2 or any(v is b or (type(v) is type(b) and v == b) for b in BOUNDARY if not isinstance(v, (dict, list))):
        res["sig"] = digest([cfg["family"], cfg["kind"], entry, cfg["nested"], jsonable(v)])
    if i % 997 == 0 or viol:
        res["sample"] = {"run_index": i, "cfg": cfg, "entry": entry, "value": jsonable(v), "steps": jsonable(steps)}
    if viol:
        viol.update(index=i, replay={"cfg": cfg, "steps": steps})
        res["viol"] = viol
    return res


_me = sys.modules[__name__]
replay = lambda payload: _seq.replay(_me, payload)  # noqa
minimise = lambda payload, viol: payload  # noqa  (traces are already 4-6 steps)
