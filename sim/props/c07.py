"""C07 - a buffered flush never silently overwrites a file changed by someone else."""
import os
import sys
from . import _seq, _buf
from ..core import lib, seams
from ..core import model as M
from ..core.values import same, deep, gen_value, stream, digest, jsonable, get_path
from ..engines import seqgen as G
from ..engines.seqsim import World, Violation, ABSENT, Skip

ID = "C07"
ENGINE = "seqsim"
LEVEL = "exploration"
RUNS = {"quick": 60000, "thorough": 400000}
CHUNK = 250
RULE = ("seeded histories over 1-4 JSON files (one object each) of one buffered family; each file gets a role "
        "{modified, read-only, untouched} x outside change {before first buffered access, after it, never}; context "
        "shapes: per-object contexts, one backend-wide context, nested mixes; flush triggers: context exit, and a "
        "capacity-forced flush (set_buffer_capacity(0) inside the context). The outside writer always changes "
        "(size, mtime_ns) (simulated clock +1ms per rewrite). Buffered modifications always change the content "
        "(fresh unique values). Oracle: a flush that would write a modified AND changed-after-entry file raises - "
        "MetadataError with .filename from a per-object exit, BufferedError whose .files keys are EXACTLY the "
        "conflicting set from a backend-wide/forced flush - and leaves the outside bytes intact; read-only files never "
        "raise and are never written; non-conflicting modified files hold the model's content; after all contexts "
        "exited: size 0, buffer empty, capacity and backend_is_buffered() as before, every object reads what is on "
        "disk and accepts a write. Fault kinds: outside_write_conflict, forced_flush. Non-trivial = >=1 outside write "
        "landed while a buffered copy existed; distinct = (roles, timing, shape, strategy) + step-shape hashes.")
ASSUMPTIONS = ["reads of a file that was changed outside while buffered are not compared (the statement does not define them)",
               "one object per file"]
COMPONENTS = {"real": ["synced_collections (working tree)", "tmpfs file system", "os.stat metadata (size, mtime_ns)"], "stub": []}
EXPECT_PROBES = {"quick": ["outside_write_while_buffered", "conflict_expected", "conflict_with_clean_files"],
                 "thorough": ["outside_write_while_buffered", "conflict_expected", "conflict_with_clean_files", "forced_flush_conflict"]}


class W(World):
    def conflicts(self, rids):
        return [rid for rid in rids if self.res[rid].bufstate is not None and self.res[rid].bufstate["modified"]
                and self.res[rid].bufstate["changed_after"]]

    def settle(self, rid, flushed_ok):
        """Bookkeeping for a file that leaves the buffer."""
        r = self.res[rid]
        b = r.bufstate
        if b is None:
            return
        if b["modified"] and b["changed_after"]:
            r.model = deep(r.disk) if r.disk is not None else ({} if r.kind == "dict" else [])
        elif b["modified"]:
            r.disk = deep(r.model)
        elif b["changed_after"]:
            r.model = deep(r.disk)
        r.bufstate = None
        self.revalidate(rid)

    def check_exc(self, res, kind, conflicting, what):
        names = sorted(self.res[rid].ident for rid in conflicting)
        if not conflicting:
            if isinstance(res, M.Raised):
                raise Violation("unexpected_error", f"{what} raised {res!r} although no modified file was changed outside")
            return
        self.probe("conflict_expected")
        if not isinstance(res, M.Raised):
            raise Violation("silent_overwrite_or_no_error", f"{what} did not raise although {[os.path.basename(n) for n in names]} were modified in the buffer and changed on disk")
        e = res.exc
        E = self.ns.errors
        if kind == "obj":
            if not isinstance(e, E.MetadataError):
                raise Violation("wrong_error", f"{what} raised {res!r}, expected MetadataError")
            if getattr(e, "filename", None) != names[0]:
                raise Violation("wrong_error", f"MetadataError.filename={getattr(e, 'filename', None)!r}, expected {names[0]!r}")
        else:
            if not isinstance(e, E.BufferedError):
                raise Violation("wrong_error", f"{what} raised {res!r}, expected BufferedError")
            got = sorted(getattr(e, "files", {}) or {})
            if got != names:
                raise Violation("wrong_error", f"BufferedError.files names {[os.path.basename(n) for n in got]}, expected exactly {[os.path.basename(n) for n in names]}")

    def after_exit(self, c, cls, flushed, res, pre):
        if c["kind"] == "backend" and self.backend_depth.get(cls, 0) > 0 and c.get("cap") is not None and c["cap_before"] == 0:
            # leaving an INNER buffer_backend(big) whose enclosing context runs with capacity 0: giving the capacity back forces a
            # flush of everything buffered (like set_buffer_capacity(0)); a conflict makes THIS exit raise BufferedError, and
            # the capacity must be the enclosing one all the same
            mine = [r.rid for r in self.res if self.cls_of(r.family, r.kind) is cls and r.bufstate is not None]
            size_positive = any(self.res[rid].bufstate["modified"] for rid in mine) if self.cfg["strategy"] == "memory" else bool(mine)
            conflicting = self.conflicts(mine) if size_positive else []
            if conflicting:
                self.probe("restore_forced_flush_conflict")
            self.stat("fault_forced_flush")
            self.check_exc(res, "backend", conflicting, "leaving the inner buffer_backend(capacity) (the restored capacity 0 forces a flush)")
            if size_positive:
                for rid in mine:
                    r = self.res[rid]
                    b = r.bufstate
                    if self.cfg["strategy"] == "serialized":
                        self.settle(rid, True)
                    elif b["modified"] and not b["changed_after"]:
                        r.disk = deep(r.model)
                        b["modified"] = False
                    elif b["modified"]:
                        b["modified"], b["changed_after"] = False, True
            if cls.get_buffer_capacity() != 0:
                raise Violation("capacity_not_restored", f"capacity {cls.get_buffer_capacity()} after leaving the inner buffer_backend({c['cap']}), the enclosing context runs with 0")
            self.check_backend(what="after the inner context exit")
            return
        rids = sorted({ob.rid for ob in flushed})
        conflicting = self.conflicts(rids)
        clean_mod = [rid for rid in rids if self.res[rid].bufstate is not None and self.res[rid].bufstate["modified"] and rid not in conflicting]
        if conflicting and clean_mod:
            self.probe("conflict_with_clean_files")
        self.check_exc(res, c["kind"], conflicting, f"leaving the {c['kind']} context")
        for rid in rids:
            self.settle(rid, True)
        self.check_backend(what="after context exit")
        if c["kind"] == "backend" and c.get("cap") is not None and cls.get_buffer_capacity() != c["cap_before"]:
            raise Violation("capacity_not_restored", f"capacity {cls.get_buffer_capacity()} after exit, {c['cap_before']} before enter")

    def st_setcap(self, st):
        """A capacity-forced flush in the middle of the buffered episode (then the capacity is set back)."""
        cls = self.cls_of(st["family"], st["kind"])
        before = cls.get_buffer_capacity()
        mine = [r.rid for r in self.res if self.cls_of(r.family, r.kind) is cls and r.bufstate is not None]
        conflicting = self.conflicts(mine)
        res = self.call(lambda: cls.set_buffer_capacity(st["n"]))
        size_positive = any(self.res[rid].bufstate["modified"] for rid in mine) if self.cfg["strategy"] == "memory" else bool(mine)
        if not size_positive:
            conflicting = []
        if conflicting:
            self.probe("forced_flush_conflict")
        self.stat("fault_forced_flush")
        self.check_exc(res, "backend", conflicting, "the capacity-forced flush")
        if size_positive:
            for rid in mine:
                r = self.res[rid]
                b = r.bufstate
                if self.cfg["strategy"] == "serialized":
                    self.settle(rid, True)
                else:
                    # entries are retained; written files are clean again, conflicting ones keep their buffered data
                    if b["modified"] and not b["changed_after"]:
                        r.disk = deep(r.model)
                        b["modified"] = False
                    elif b["modified"]:
                        b["modified"] = False      # the buffered copy is flagged clean again: unless it is modified once
                        b["changed_after"] = True  # more it will not be written, and the object then shows what is on disk
        self.call(lambda: cls.set_buffer_capacity(before))
        self.check_backend(what="after the forced flush")

    def st_enterforce(self, st):
        """A nested buffer_backend(0) whose ENTRY forces the flush (set_buffer_capacity inside __enter__). If that flush hits a
        conflict the entry raises: the context was then never entered, so nesting depth and capacity must be as before."""
        cls = self.cls_of(st["family"], st["kind"])
        if not self.backend_depth.get(cls):
            raise Skip()
        before_cap = cls.get_buffer_capacity()
        mine = [r.rid for r in self.res if self.cls_of(r.family, r.kind) is cls and r.bufstate is not None]
        memory = self.cfg["strategy"] == "memory"
        size_positive = any(self.res[rid].bufstate["modified"] for rid in mine) if memory else bool(mine)
        conflicting = self.conflicts(mine) if size_positive else []
        cm = cls.buffer_backend(0)
        res = self.call(lambda: cm.__enter__())
        self.stat("fault_forced_flush")
        self.check_exc(res, "backend", conflicting, "entering a nested buffer_backend(0)")
        if size_positive:
            for rid in mine:
                r = self.res[rid]
                b = r.bufstate
                if not memory:
                    self.settle(rid, True)
                elif b["modified"] and not b["changed_after"]:
                    r.disk = deep(r.model)
                    b["modified"] = False
                elif b["modified"]:
                    b["modified"], b["changed_after"] = False, True
        if isinstance(res, M.Raised):
            self.probe("nested_enter_raised")
            # never entered: nothing to exit; settings must be untouched
            if cls.get_buffer_capacity() != before_cap:
                raise Violation("capacity_not_restored", f"buffer_backend(0).__enter__ raised, yet the capacity is now {cls.get_buffer_capacity()} (was {before_cap})")
        else:
            res2 = self.call(lambda: cm.__exit__(None, None, None))
            if isinstance(res2, M.Raised):
                raise Violation("unexpected_error", f"leaving the nested buffer_backend(0) raised {res2!r}")
            if cls.get_buffer_capacity() != before_cap:
                raise Violation("capacity_not_restored", f"capacity {cls.get_buffer_capacity()} after the nested context, {before_cap} before")
        self.check_backend(what="after the nested buffer_backend(0)")

    def st_opforce(self, st):
        """A capacity-forced flush triggered from INSIDE an operation on another file: the capacity is first set to the
        current buffer size (no flush: not smaller), then the operation's first buffered access / write pushes the size
        over it."""
        cls = self.cls_of(st["family"], st["kind"])
        before = cls.get_buffer_capacity()
        h = self.handles[st["hid"]]
        ob = self.objs[h.oid]
        rb = self.res[ob.rid]
        if rb.bufstate is not None or not self.backend_depth.get(cls) or ob.depth:
            raise Skip()
        from ..core.values import get_path as _gp0
        if isinstance(M.model_apply(_gp0(deep(rb.model), h.path), st["name"], M.dec(st["args"], None)), M.Raised):
            raise Skip()   # only operations that succeed on their own are used to trigger the flush
        mine = [r.rid for r in self.res if self.cls_of(r.family, r.kind) is cls and r.bufstate is not None]
        conflicting = self.conflicts(mine)
        res = self.call(lambda: cls.set_buffer_capacity(cls.get_current_buffer_size()))
        if isinstance(res, M.Raised):
            raise Violation("unexpected_error", f"set_buffer_capacity(current size) raised {res!r}")
        memory = self.cfg["strategy"] == "memory"
        args = M.dec(st["args"], None)
        trial = deep(rb.model)
        from ..core.values import get_path as _gp
        mres = M.model_apply(_gp(trial, h.path), st["name"], M.dec(st["args"], None))
        is_mut = M.is_mutator(h.kind, st["name"])
        size_positive = any(self.res[rid].bufstate["modified"] for rid in mine) if memory else bool(mine)
        will_force = (is_mut if memory else True)
        res = self.lib_op(h.node, st["name"], args)
        self.stat("fault_forced_flush")
        if will_force and conflicting:
            self.probe("op_forced_flush_conflict")
        self.check_exc(res, "backend", conflicting if will_force else [], f"{st['name']} on another file that forces a flush")
        if will_force:
            for rid in mine:
                r = self.res[rid]
                b = r.bufstate
                if not memory:
                    self.settle(rid, True)
                elif b["modified"] and not b["changed_after"]:
                    r.disk = deep(r.model)
                    b["modified"] = False
                elif b["modified"]:
                    b["modified"], b["changed_after"] = False, True
        # the operation on the other file itself
        raised = isinstance(res, M.Raised)
        if memory:
            if is_mut and not isinstance(mres, M.Raised):
                rb.model, rb.exists = trial, True
                rb.bufstate = {"modified": False, "changed_after": False, "mutated": True}
                rb.disk = deep(trial)      # flushed by the forced flush it triggered (it is not conflicting)
            elif rb.bufstate is None:
                rb.bufstate = {"modified": False, "changed_after": False, "mutated": False}
        else:
            if not raised and is_mut and not isinstance(mres, M.Raised):
                # serialized: the load forced a flush (this file's fresh entry is dropped), then the save re-enters the
                # buffer and forces another flush that writes this file: the write is on disk, nothing stays buffered
                # ... unless the new document alone still fits the capacity: then it stays buffered. Both are legal;
                # which one happened is read off the disk (this file is only the trigger, not the file under test).
                obs_b = self.observe(rb)
                rb.model, rb.exists = trial, True
                if obs_b is not ABSENT and same(obs_b, trial):
                    rb.disk, rb.bufstate = deep(trial), None
                else:
                    rb.bufstate = {"modified": True, "changed_after": False, "mutated": True}
            # a read (or a write that raised at load time) leaves nothing buffered for this file
        self.call(lambda: cls.set_buffer_capacity(before))
        self.check_backend(what="after the operation-triggered forced flush")

    def finish(self):
        if self.ctx:
            # leave one by one: every exit has its own expected outcome
            while self.ctx:
                self.st_exit({"t": "exit"})
        self.check_backend(what="at end of run")
        for cls in sorted({o.cls for o in self.objs}, key=lambda c: c.__name__):
            if cls.get_current_buffer_size() != 0:
                raise Violation("buffer_not_empty", f"{cls.__name__}.get_current_buffer_size()={cls.get_current_buffer_size()} after all contexts exited")
            buf = cls.__dict__.get("_buffer")
            if isinstance(buf, dict) and buf:
                raise Violation("buffer_not_empty", f"{cls.__name__}._buffer still holds {[os.path.basename(k) for k in buf]}")
            if cls.backend_is_buffered():
                raise Violation("still_buffered", f"{cls.__name__}.backend_is_buffered() after all contexts exited")
            if cls.get_buffer_capacity() != self.cap0[cls]:
                raise Violation("capacity_not_restored", f"{cls.__name__} capacity {cls.get_buffer_capacity()}, was {self.cap0[cls]}")
        self.oracles = self.oracles | {"result"}
        for ob in self.objs:
            self.st_op({"t": "op", "hid": ob.root_hid, "name": "call", "args": []})
        for ob in self.objs:
            r = self.res[ob.rid]
            v = self.fresh.int()
            if r.kind == "dict":
                self.st_op({"t": "op", "hid": ob.root_hid, "name": "setitem", "args": [self.fresh.key(), v]})
            else:
                self.st_op({"t": "op", "hid": ob.root_hid, "name": "append", "args": [v]})
        self.check_backend(what="after the final writes")


WorldClass = W


def make_cfg(rs, tier):
    cfg = _buf.base_cfg(rs, ID, nres=rs.choice([1, 2, 3, 4]))
    cfg.update(capmode="huge", forced_flush_possible=False, oracles=["backend"], kinds=[G.pick(rs, ["dict", "list"]) for _ in range(4)],
               shape=rs.choice(["obj", "backend", "nested", "backend", "backend2"]), forced=rs.random() < 0.35,
               roles=[rs.choice(["modified", "modified", "readonly", "untouched"]) for _ in range(4)],
               outside=[rs.choice(["before", "after", "after", "never"]) for _ in range(4)], bcap=rs.choice([None, None, 10**6]),
               prior_cap=rs.choice([None, None, 0, 0, 1, 7]))
    return cfg


def drive(w, rg, emit):
    cfg = w.cfg
    n = cfg["nres"]
    if cfg.get("prior_cap") is not None and cfg["bcap"] and cfg["shape"] in ("backend", "nested"):
        # an unusual but legal capacity is in force before the contexts (0 = flush on every modification); the contexts
        # themselves run with buffer_backend(bcap) and must give it back afterwards ("its settings are as before")
        for k_ in sorted({cfg["kinds"][i] for i in range(n)}):
            emit({"t": "setcap_keep", "family": cfg["family"], "kind": k_, "n": cfg["prior_cap"]})
    w.cap0 = {o.cls: o.cls.get_buffer_capacity() for o in w.objs}
    objs = {o.rid: o for o in w.objs}
    # unbuffered prefix
    for _ in range(rg.randint(0, 2)):
        o = objs[rg.randrange(n)]
        emit(G.gen_op_step(rg, w, w.handles[o.root_hid], depth=2, mut_weight=0.7))
    kinds = sorted({cfg["kinds"][i] for i in range(n)})

    def outside(rid):
        r = w.res[rid]
        if r.disk is not None and rg.random() < 0.25:
            before = w.stats.get("outside_nudge_1ns", 0)
            emit({"t": "outside", "rid": rid, "edit": ["nudge"]})
            if w.stats.get("outside_nudge_1ns", 0) > before:
                return
        emit({"t": "outside", "rid": rid, "edit": G.gen_outside_edit(rg, w, r, 2) if r.disk is not None and rg.random() < 0.8
              else ["replace", gen_value(rg, w.fresh, 2, r.kind, 3)]})
    for rid in range(n):
        if cfg["outside"][rid] == "before":
            outside(rid)
    # enter
    if cfg["shape"] == "backend2":
        # an outer backend-wide context with capacity 0 and, right inside it, an inner one with a big capacity: every buffered
        # access happens in the inner one; leaving it hands the capacity 0 back, which forces the flush
        for k in kinds:
            emit({"t": "enter", "ctx": "backend", "family": cfg["family"], "kind": k, "cap": 0})
        for k in kinds:
            emit({"t": "enter", "ctx": "backend", "family": cfg["family"], "kind": k, "cap": 10**6})
    if cfg["shape"] in ("backend", "nested"):
        for k in kinds:
            st = {"t": "enter", "ctx": "backend", "family": cfg["family"], "kind": k}
            if cfg["bcap"]:
                st["cap"] = cfg["bcap"]
            emit(st)
    if cfg["shape"] in ("obj", "nested"):
        for rid in range(n):
            if cfg["shape"] == "obj" or rg.random() < 0.5:
                emit({"t": "enter", "ctx": "obj", "oid": objs[rid].oid})
    # buffered accesses
    order = list(range(n))
    rg.shuffle(order)

    def access(rid, write):
        r = w.res[rid]
        if r.bufstate is not None and r.bufstate.get("dead"):
            return
        h = w.handles[objs[rid].root_hid]
        if write:
            if r.kind == "dict":
                emit({"t": "op", "hid": h.hid, "name": "setitem", "args": [w.fresh.key(), gen_value(rg, w.fresh, 1)]})
            else:
                emit({"t": "op", "hid": h.hid, "name": "append", "args": [gen_value(rg, w.fresh, 1)]})
        else:
            emit(G.gen_op_step(rg, w, h, depth=1, mut_weight=0.0))
    for rid in order:
        role = cfg["roles"][rid]
        if role == "untouched":
            continue
        access(rid, role == "modified" and rg.random() < 0.7)
    for rid in order:
        if cfg["outside"][rid] == "after":
            outside(rid)
    early = cfg["forced"] and rg.random() < 0.4
    if early:
        # the capacity-forced flush happens BETWEEN the outside change and the (first) buffered modification
        emit({"t": "setcap", "family": cfg["family"], "kind": G.pick(rg, kinds), "n": 0})
        w.probe("forced_flush_before_modification")
    for rid in order:
        role = cfg["roles"][rid]
        if role == "modified":
            access(rid, True)
        elif role == "readonly" and rg.random() < 0.5:
            access(rid, False)
    if early:
        pass
    elif cfg["forced"] and cfg["shape"] in ("backend", "nested") and rg.random() < 0.5:
        # forced flush from inside an operation on a file that is not buffered yet
        cand = [rid for rid in range(n) if w.res[rid].bufstate is None and not any(c["kind"] == "obj" and c["oid"] == objs[rid].oid for c in w.ctx)
                and w.res[rid].exists]
        if cand:
            rid = G.pick(rg, cand)
            h = w.handles[objs[rid].root_hid]
            st = G.gen_op_step(rg, w, h, depth=1, mut_weight=0.6, keep_p=0.0)
            from ..core.values import get_path as _gp1
            ok = not isinstance(M.model_apply(_gp1(deep(w.res[rid].model), h.path), st["name"], M.dec(st["args"], None)), M.Raised)
            if cfg["strategy"] == "serialized" and st["name"] in ("clear", "reset") and not h.path:
                ok = False   # root clear/reset do not load first: the flush would only happen at their save (kept out for a crisp oracle)
            if st["name"] != "popitem" and ok:
                emit({"t": "opforce", "family": cfg["family"], "kind": w.res[rid].kind, "hid": h.hid, "name": st["name"], "args": st["args"]})
    elif cfg["forced"] and cfg["shape"] in ("backend", "nested") and rg.random() < 0.4:
        emit({"t": "enterforce", "family": cfg["family"], "kind": G.pick(rg, kinds)})
    elif cfg["forced"]:
        emit({"t": "setcap", "family": cfg["family"], "kind": G.pick(rg, kinds), "n": 0})
        for rid in order:
            if cfg["roles"][rid] != "untouched" and rg.random() < 0.4:
                access(rid, cfg["roles"][rid] == "modified" and rg.random() < 0.5)
    # exits happen in finish() one at a time


# ---- threaded part: the flush of a per-object context next to a writer of the same class on another thread ----------
# "Someone else" may also be another thread of this process writing the file through an unbuffered object of the same
# class.  T0 runs `with A.buffered: <op>` (load into the buffer, modify, flush at the exit), T1 runs one unbuffered
# mutator through B (same file).  Whatever the interleaving, T1's write is never silently lost: either it is in the final
# file together with T0's, or T0's exit raised MetadataError and the file holds T1's content.

THREAD_EVERY = 8       # every 8th run index is a threaded run


def thread_build(seed, i, tier):
    from . import _thr
    from ..core.values import Fresh
    ns = lib.load()
    rs = stream(seed, ID, i, "tcfg")
    fresh = Fresh()
    fam = G.pick(rs, ns.buffered_families)
    kind = G.pick(rs, ["dict", "list"])
    cfg = {"prop": ID, "family": fam, "kind": kind, "wc": rs.random() < 0.5, "threading": True, "oracles": [], "uuid_seed": rs.getrandbits(32), "opcode": rs.random() < 0.06}
    init = _thr.init_content(kind, fresh)
    pre = [{"t": "new_res", "family": fam, "kind": kind, "init": init}, {"t": "new_obj", "rid": 0, "wc": cfg["wc"]}, {"t": "new_obj", "rid": 0, "wc": cfg["wc"]}]
    v0, v1 = fresh.int(), fresh.int()
    if kind == "dict":
        op0 = ["setitem", ["w0", v0]] if rs.random() < 0.85 else ["len", []]
        op1 = {"h": 1, "name": "setitem", "args": ["w1", v1]}
    else:
        op0 = ["append", [v0]] if rs.random() < 0.85 else ["len", []]
        op1 = {"h": 1, "name": "append", "args": [v1]}
    # (the other writer is never buffered itself: two per-object contexts on one file that exit at different times are
    #  objects in different buffering states, which the library documents as unsupported - outside every property)
    progs = [[{"h": 0, "name": "$buffered_block", "args": op0}], [op1]]
    r = rs.random()
    if r < 0.3:
        strat = {"kind": "random", "p": rs.choice([0.02, 0.1, 0.3])}
    elif r < 0.45:
        strat = {"kind": "pct", "d": rs.choice([1, 2, 3]), "est": rs.choice([400, 800, 1500])}
    else:
        first = rs.choice(["T0", "T0", "T1"])
        strat = {"kind": "single", "first": first, "k": rs.randrange(0, rs.choice([200, 800, 1600])), "order": [first, "T1" if first == "T0" else "T0"]}
    return {"part": "T", "cfg": cfg, "pre": pre, "progs": progs, "strat": strat, "sched_seed": f"{seed}/{ID}/t{i}", "v0": v0, "v1": v1, "kind": kind}


def thread_run(payload):
    from . import _thr, c10
    c10._special_ops()
    out = _thr.execute(payload["cfg"], payload["progs"], payload["strat"], payload["sched_seed"], payload["pre"], None)
    return out, thread_judge(payload, out)


def thread_judge(payload, out):
    from . import _thr
    if out["abort"] == "deadlock":
        return {"kind": "deadlock", "msg": f"deadlock: {out['deadlock']} | {_thr.describe_history(out)}"}
    if out["abort"] or out["errors"]:
        return {"kind": "harness_thread_error", "msg": f"{out['abort']} {out['errors']}"}
    recs = {r["t"]: r for r in out["history"]}
    t0, t1 = recs.get(0), recs.get(1)
    if t0 is None or t1 is None:
        return {"kind": "harness_thread_error", "msg": "a thread did not record its operation"}
    final = out["final"][0]
    hist = _thr.describe_history(out) + f" | final={jsonable(final)!r}"
    if t1.get("exc") and not (payload["progs"][1][0]["name"] == "$buffered_block" and t1["exc"] == "MetadataError"):
        return {"kind": "unexpected_error", "msg": f"the other writer raised {t1['exc']}: {hist}"}
    v0, v1, kind = payload["v0"], payload["v1"], payload["kind"]

    def has(v, key):
        if final is None:
            return False
        return (final.get(key) == v) if kind == "dict" else (v in final)
    t0_wrote = payload["progs"][0][0]["args"][0] in ("setitem", "append")
    if t0.get("exc") and t0["exc"] != "MetadataError":
        return {"kind": "unexpected_error", "msg": f"the buffered block raised {t0['exc']} (only MetadataError reports a conflict): {hist}"}
    if not has(v1, "w1"):
        return {"kind": "silent_overwrite", "msg": "the flush at the exit of A.buffered overwrote what another thread wrote to the same file through an unbuffered "
                f"object of the same class, and {'raised ' + t0['exc'] + ' but the other writer\'s content is not intact' if t0.get('exc') else 'raised nothing'}: {hist}"}
    if not t0.get("exc") and t0_wrote and not has(v0, "w0"):
        return {"kind": "lost_buffered_write", "msg": f"the buffered block returned normally but its write is not in the file: {hist}"}
    bad = {k: v for k, v in out.get("bufsize", {}).items() if v}
    if bad:
        return {"kind": "buffer_not_empty", "msg": f"every context has exited, yet the reported buffer size is {bad}: {hist}"}
    return None


def run_one(seed, i, tier):
    if i % THREAD_EVERY == THREAD_EVERY - 1:
        from ..core.runner import run_isolated
        payload = thread_build(seed, i, tier)
        out, v = run_isolated(thread_run, (payload,), timeout=60)
        res = {"viol": None, "probes": {"threaded_flush_runs": 1, "threaded_flush_conflicts": int(any(r.get("exc") == "MetadataError" for r in out["history"])),
                                        "preempt_in_op": out["preempt_in_op"]},
               "stats": {}, "steps": out["steps"], "faults": {"preemption": out["switches"]}}
        if out["preempt_in_op"]:
            res["sig"] = digest([payload["cfg"]["family"], payload["kind"], payload["progs"][0][0]["args"][0], out.get("switch_phases", [])[:6]])
        if i % 997 == THREAD_EVERY - 1 or v:
            res["sample"] = {"run_index": i, "programs": jsonable(payload["progs"]), "strategy": payload["strat"]}
        if v:
            rp = dict(payload)
            rp["strat"] = {"kind": "forced", "choices": out["choices"]}
            v.update(index=i, replay=rp)
            res["viol"] = v
        return res
    rs = stream(seed, ID, i, "cfg")
    cfg = make_cfg(rs, tier)
    rg = stream(seed, ID, i, "gen")
    w = W(cfg)
    steps, viol = [], None

    def emit(st):
        if st is None:
            return
        steps.append(st)
        w.step(st)
    try:
        try:
            for st in _buf.setup(w, rg):
                emit(st)
            drive(w, rg, emit)
            w.finish()
        except Violation as e:
            viol = {"kind": e.kind, "msg": e.msg}
    finally:
        w.close()
    clean = [{k: v for k, v in s.items() if not k.startswith("_")} for s in steps]
    res = {"viol": None, "probes": w.probes, "stats": w.stats, "steps": w.nsteps,
           "faults": {"outside_write_conflict": w.probes.get("outside_write_while_buffered", 0), "forced_flush": w.stats.get("fault_forced_flush", 0),
                      "outside_write": w.stats.get("outside_write", 0)}}
    if w.probes.get("outside_write_while_buffered"):
        res["sig"] = digest([cfg["family"], cfg["shape"], cfg["forced"], cfg["roles"][:cfg["nres"]], cfg["outside"][:cfg["nres"]],
                             _seq.shape_sig(w, cfg, clean)])
    if i % 997 == 0 or viol:
        res["sample"] = {"run_index": i, "cfg": cfg, "steps": jsonable(clean[:40])}
    if viol:
        viol.update(index=i, replay={"cfg": cfg, "steps": clean})
        res["viol"] = viol
    return res


def replay(payload):
    if payload.get("part") == "T":
        from ..core.runner import run_isolated
        out, v = run_isolated(thread_run, (payload,), timeout=60)
        return v
    w = W(payload["cfg"])
    try:
        try:
            w.cap0 = None
            for st in payload["steps"]:
                if w.cap0 is None and st["t"] not in ("new_res", "new_obj"):
                    w.cap0 = {o.cls: o.cls.get_buffer_capacity() for o in w.objs}
                w.step(dict(st))
            if w.cap0 is None:
                w.cap0 = {o.cls: o.cls.get_buffer_capacity() for o in w.objs}
            w.finish()
        except Violation as v:
            return {"kind": v.kind, "msg": v.msg}
        return None
    finally:
        w.close()


def minimise(payload, viol):
    if payload.get("part") == "T":
        return payload       # two operations and a forced schedule: already minimal in operations
    from ..core.runner import ddmin
    kind = viol["kind"]
    fixed = [s for s in payload["steps"] if s["t"] in ("new_res", "new_obj")]
    rest = [s for s in payload["steps"] if s["t"] not in ("new_res", "new_obj")]

    def test(x):
        try:
            v = replay({"cfg": payload["cfg"], "steps": fixed + x})
        except Exception:
            return False
        return v is not None and v["kind"] == kind
    if not test(rest):
        return payload
    return {"cfg": payload["cfg"], "steps": fixed + ddmin(rest, test)}
