"""C19 - how a value is classified never depends on what was processed before (engine D: warmsim)."""
import os
import sys
from ..core import lib
from ..core.values import stream, digest
from ..core.runner import run_isolated, HarnessError
from ..engines import warmsim as WS

ID = "C19"
ENGINE = "warmsim"
LEVEL = "exploration"
WITH_NUMPY = True
RUNS = {"quick": 12000, "thorough": 100000}
CHUNK = 100
RULE = ("a pool of ~60 values of diverse concrete types (built-ins, subclasses of str/int/float/dict/list/tuple, "
        "UserDict/UserList/OrderedDict/deque/namedtuple/range/bytes/bytearray/memoryview/dict views/sets, nan/inf, "
        "Decimal/Fraction/complex, user classes that are Mapping, Sequence, both, neither, classes whose BASE class "
        "classifies differently from the derived class, and - when the side-installed wheel is present - NumPy 0-d/1-d/"
        "2-d/empty/object arrays, scalars, complex and extended-precision values) and ~30 operations (4 validators, "
        "is_base_type of dict/list, and setitem/update/append+extend/reset/constructor/merge on 4 JSON class families). "
        "A run draws a seeded warm-up history (1-12 (operation,value) pairs, incl. rejected ones), executes it, then "
        "executes a seeded probe (operation,value) and compares its outcome (accepted/exception class, stored plain "
        "form, class of every stored node) with the outcome of the same probe in a RESTARTED process (a child "
        "forked from the template process, which has imported the library but never executed an operation; the warm-up + "
        "probe also run in their own freshly forked child, so the history is exactly the generated one). Fault kind: restart. Non-trivial = the warm-up contains a value of a "
        "different concrete type than the probe; distinct = (probe op, probe type, ordered warm-up types) hashes.")
ASSUMPTIONS = ["a restarted process = a child forked from a template that imported the library and executed nothing", "NumPy 2.5.3 is side-installed from the offline wheelhouse into /verif/.deps "
               "(git-ignored); if absent the pool has no NumPy members and evidence says numpy: absent"]
COMPONENTS = {"real": ["synced_collections (working tree)", "tmpfs file system", "numpy 2.5.3 (side-installed wheel) when present"], "stub": []}
EXPECT_PROBES = {"quick": ["warmup_other_type"], "thorough": ["warmup_other_type"]}

_cache = {}


def _env():
    if "env" not in _cache:
        ns = lib.load(with_numpy=True)
        pool = WS.pool()
        ops, cleanup = WS.ops(ns)
        _cache["env"] = (ns, pool, ops, cleanup)
        _cache["fresh"] = {}
        _cache["crosschecked"] = 0
    return _cache["env"]


def _fork_outcome(opn, vn):
    ns, pool, ops, cleanup = _env()
    try:
        return repr(WS.run_op(ops, opn, pool[vn]()))
    finally:
        cleanup()


def fresh_outcome(opn, vn):
    """Ground truth: the probe's outcome in a process that has handled nothing before (child forked from the
    template, which has imported the library but never executed an operation). Cached per worker."""
    _env()
    key = (opn, vn)
    if key not in _cache["fresh"]:
        _cache["fresh"][key] = run_isolated(_fork_outcome, key, timeout=60)
    return _cache["fresh"][key]


def _history_outcome(hist, probe):
    ns, pool, ops, cleanup = _env()
    try:
        for o, v in hist:
            WS.run_op(ops, o, pool[v]())
        return repr(WS.run_op(ops, probe[0], pool[probe[1]]()))
    finally:
        cleanup()


def run_one(seed, i, tier):
    ns, pool, ops, cleanup = _env()
    rs = stream(seed, ID, i, "gen")
    names, opnames = list(pool), list(ops)
    n = rs.choice([1, 2, 4, 8, 12])
    hist = [(rs.choice(opnames), rs.choice(names)) for _ in range(n)]
    probe = (rs.choice(opnames), rs.choice(names))
    if rs.random() < 0.5:
        # bias: warm up with relatives of the probe value (same op family, other types) - the shape of every known memo bug
        hist = [(probe[0] if rs.random() < 0.6 else o, v) for o, v in hist]
    if rs.random() < 0.12:
        # LONG history of rejected nested values (the store-or-fall-back idiom on bad records), then a valid nested probe:
        # state leaked on the error path of a validator accumulates slowly
        bad = [v for v in names if v.startswith("nested_bad") or v in ("set", "complex", "object", "intkeydict", "bothms_nested_bad")]
        n = rs.choice([40, 80, 130])
        o0 = rs.choice(opnames)
        hist = [(o0 if rs.random() < 0.8 else rs.choice(opnames), rs.choice(bad)) for _ in range(n)]
        probe = (rs.choice(opnames), rs.choice(["nested", "deep_valid", "dict", "list", "tuple"]))
    if rs.random() < 0.08:
        # LOW-STACK history: the probe's own operation was attempted before with a nearly exhausted call stack, at every
        # head-room from 8 to 130 frames (some attempts die with RecursionError somewhere inside the classification)
        coll = [v for v in names if v in ("dictsub", "ordereddict", "userdict", "derivedmapping", "mappingsub2", "listsub", "userlist", "deque",
                                          "derivedseq", "namedtuple", "bothms", "tuplesub", "nested", "transient_mapping", "transient_seq")]
        probe = (rs.choice(opnames), rs.choice(coll))
        off = rs.randrange(2)
        hist = [(f"lowstack{h}:{probe[0]}", probe[1]) for h in range(8 + off, 130, 2)]
    expected = fresh_outcome(*probe)
    # the warm-up + probe run in their own freshly forked child: the history is exactly `hist`
    got = run_isolated(_history_outcome, (hist, probe), timeout=60)
    res = {"viol": None, "steps": n + 1, "probes": {"warmup_other_type": int(any(v != probe[1] for _, v in hist)),
                                                    "numpy_present": int("np1d" in pool), "fresh_fork_truths": 1},
           "faults": {"restart": 1}, "stats": {"ops": n + 1}}
    res["logd"] = digest([hist, probe, got, expected])
    if any(v != probe[1] for _, v in hist):
        res["sig"] = digest([probe, hist])
    if i % 499 == 0:
        res["sample"] = {"run_index": i, "warmup": hist, "probe": probe, "outcome": got[:300]}
    if got != expected:
        res["viol"] = {"kind": "history_dependent_classification", "index": i,
                       "msg": f"probe {probe[0]}({probe[1]}) after warm-up {hist} gives {got[:400]}, in a fresh process {expected[:400]}",
                       "replay": {"hist": hist, "probe": list(probe)}}
    return res


def replay(payload):
    _env()
    probe = tuple(payload["probe"])
    hist = [tuple(x) for x in payload["hist"]]
    expected = run_isolated(_fork_outcome, probe, timeout=60)
    got = run_isolated(_history_outcome, (hist, probe), timeout=60)
    if got != expected:
        return {"kind": "history_dependent_classification", "msg": f"probe {probe} after warm-up {hist} gives {got[:400]}, fresh process {expected[:400]}"}
    return None


def minimise(payload, viol):
    from ..core.runner import ddmin

    def test(h):
        try:
            return replay({"hist": h, "probe": payload["probe"]}) is not None
        except Exception:
            return False
    if not test(payload["hist"]):
        return payload
    return {"hist": ddmin([list(x) for x in payload["hist"]], test), "probe": payload["probe"]}
