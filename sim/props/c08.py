"""C08 - a crash during a save leaves each JSON file wholly old or wholly new (engine C: crashsim)."""
import hashlib
import os
import sys
import shutil
import stat as _stat

from . import _buf
from ..core import lib, seams
from ..core import model as M
from ..core.values import Fresh, stream, digest, jsonable, deep, same, gen_value, get_path
from ..core.runner import run_isolated, HarnessError
from ..engines import seqgen as G
from ..engines.seqsim import World, Violation, ABSENT, make_run_dir

ID = "C08"
ENGINE = "crashsim"
LEVEL = "fault_enumeration"
RUNS = {"quick": 6000, "thorough": 40000}
CHUNK = 50
RULE = ("for each seeded save (a mutator on the root or a nested child in unbuffered mode; a per-object or backend-wide "
        "context exit flushing 1-4 files; a capacity-forced flush via set_buffer_capacity(0); both buffering strategies; "
        "write_concern x threading-support configurations) EVERY crash state of the operation is enumerated from one "
        "instrumented execution in a forked child: the directory is snapshotted at every executed library line, before "
        "and after every wrapped file operation (open/close/replace/rename/remove/stat) and, for every write(data), the "
        "states 'file so far + data[:k]' for every k (len<=256; else 7 fixed + 16 seeded k). Data still in Python's "
        "BufferedWriter is not on disk, as after a real SIGKILL. Oracle per crash state and file (when write_concern or "
        "threading support is on): bytes parse as JSON and equal, type-strictly, the content before the operation or "
        "the model's content after it (absent only if it was absent before), and a fresh collection object opens the "
        "materialised state and shows that content. Second sentence: content that cannot be serialised (10**5000, or an "
        "injected encoder failure TypeError/ValueError/RecursionError/MemoryError at json.dumps) in ALL four write "
        "modes and through buffered flushes: the operation raises and the file's bytes are unchanged. In thorough runs "
        "a seeded sample of predicted crash states is validated against real kills (os._exit at that event in a second "
        "forked child). evaluations = crash states examined; distinct = (op kind, configuration, distinct directory state).")
ASSUMPTIONS = ["process crash (SIGKILL) model: kernel file state survives, user-space buffers are lost; power loss / fsync "
               "ordering is not claimed by C08 and not simulated", "os.replace is atomic on POSIX (tmpfs)",
               "temp files left behind by a crash are allowed (the property does not mention them)"]
COMPONENTS = {"real": ["synced_collections (working tree)", "tmpfs file system", "builtins.open/os.replace through pass-through wrappers", "real os._exit kills (thorough)"],
              "stub": []}
EXPECT_PROBES = {"quick": ["crash_between_tmp_write_and_replace", "torn_prefix_states", "unserialisable_checked"],
                 "thorough": ["crash_between_tmp_write_and_replace", "torn_prefix_states", "unserialisable_checked", "crash_states_validated_by_kill"]}


class KillNow(BaseException):
    pass


def dir_state(w):
    out = []
    for r in w.res:
        try:
            with seams.REAL["open"](r.ident, "rb") as f:
                out.append(f.read())
        except FileNotFoundError:
            out.append(None)
    return tuple(out)


def extra_files(w):
    """Every file in the run directory that is not a resource file (left-over temp files), name -> bytes."""
    mine = {os.path.basename(r.ident) for r in w.res}
    out = []
    try:
        names = sorted(os.listdir(w.dir))
    except OSError:
        names = []
    for n in names:
        p = os.path.join(w.dir, n)
        if n in mine:
            continue
        try:
            if not _stat.S_ISREG(os.lstat(p).st_mode):     # (os.lstat is not a seam: no recursion into the crash-state hooks)
                continue
        except OSError:
            continue
        try:
            with seams.REAL["open"](p, "rb") as f:
                out.append((n, f.read()))
        except OSError:
            pass
    return tuple(out)


def instrumented(w, fn, rg, kill_at=None):
    """Run fn() with crash-state enumeration. Returns (result, states: dict state -> first label, n_events, info)."""
    libdir = w.ns.libdir + "/"
    states = {}
    counter = [0]
    info = {"torn": 0, "between": 0, "events": [], "full": {}}
    full = info["full"]      # (resource files, left-over temp files) -> (event, label): the WHOLE directory at a crash
    seen_tmp_write = [False]

    def snap(label):
        counter[0] += 1
        if kill_at is not None and counter[0] == kill_at:
            os._exit(137)
        st = dir_state(w)
        if st not in states:
            states[st] = (counter[0], label)
        ex = extra_files(w)
        if ex and (st, ex) not in full:
            full[(st, ex)] = (counter[0], label)
        if seen_tmp_write[0] and label in ("pre-replace", "pre-rename"):
            info["between"] += 1

    def on_event(kind, what):
        if kind == "post-close":
            seen_tmp_write[0] = True
        snap(kind)

    def write_hook(path, fobj, data):
        # states in which only a prefix of data reached the file (torn / short write)
        rid = None
        for r in w.res:
            if os.path.abspath(path) == os.path.abspath(r.ident):
                rid = r.rid
        if isinstance(data, str):
            # a file opened in text mode: the crash states are prefixes of the ENCODED bytes
            enc = getattr(fobj, "encoding", None) or "utf-8"
            try:
                data = data.encode(enc)
            except UnicodeError:
                data = data.encode(enc, "replace")    # (the real write raises; nothing of this text reaches the disk intact)
        n = len(data)
        if n <= 256:
            ks = range(n + 1)
        else:
            ks = sorted(set([0, 1, n // 4, n // 2, 3 * n // 4, n - 1, n] + [rg.randrange(n) for _ in range(16)]))
        base = dir_state(w)
        base_extra = extra_files(w) if rid is None else ()
        if rid is None and fobj is not None:
            # bytes already handed to this temp file but still in Python's buffer are not on disk: base_extra is what is
            base_extra = tuple((nm, b) for nm, b in base_extra)
        for k in ks:
            counter[0] += 1
            if kill_at is not None and counter[0] == kill_at:
                fobj.flush()
                os.write(fobj.fileno(), data[:k])
                os._exit(137)
            info["torn"] += 1
            if rid is not None:
                cur = base[rid] or b""
                st = tuple((cur + data[:k]) if i == rid else b for i, b in enumerate(base))
                if st not in states:
                    states[st] = (counter[0], f"write-prefix[{k}/{n}]")
            else:
                # a torn write of a TEMP file: the directory holds the resource files plus a partial temp file
                name = os.path.basename(path)
                ex = tuple(sorted([(nm, b) for nm, b in base_extra if nm != name] + [(name, dict(base_extra).get(name, b"") + data[:k])]))
                if (base, ex) not in full:
                    full[(base, ex)] = (counter[0], f"temp-write-prefix[{k}/{n}]")

    def gtrace(frame, event, arg):
        if event == "call" and frame.f_code.co_filename.startswith(libdir):
            return ltrace
        return None

    def ltrace(frame, event, arg):
        if event == "line":
            snap("line %s:%d" % (frame.f_code.co_filename[len(libdir):], frame.f_lineno))
        return ltrace
    s = w.seams
    s.on_event, s.write_hook = on_event, write_hook
    s.lib_active = True
    snap("before")
    sys.settrace(gtrace)
    try:
        try:
            res = fn()
        except Exception as e:  # noqa
            res = M.Raised(e)
    finally:
        sys.settrace(None)
        s.lib_active = False
        s.on_event = s.write_hook = None
    snap("after")
    return res, states, counter[0], info


def parse(b):
    if b is None:
        return ABSENT
    try:
        return seams.REAL["loads"](b)
    except Exception:
        return ("<unparsable>", b[:80])


def build(seed, i, tier):
    ns = lib.load()
    rs = stream(seed, ID, i, "cfg")
    mode = rs.choice(["unbuffered", "unbuffered", "flush", "flush", "unserialisable", "unserialisable", "unserialisable-flush"])
    fams = ns.json_families if mode not in ("flush", "unserialisable-flush") else ns.buffered_families
    if mode == "unserialisable-flush":
        fams = [f for f in fams if ns.families[f]["strategy"] == "memory"]   # the serialized strategy encodes at the operation itself
    fam = G.pick(rs, fams)
    wc = rs.random() < 0.5
    threading = rs.random() < 0.5
    plain_ok = mode == "unbuffered" and rs.random() < 0.25     # plain write mode: only "an operation that raises leaves the file alone" is checked
    if not mode.startswith("unserialisable") and not (wc or threading) and not plain_ok:
        wc = True
    cfg = {"prop": ID, "family": fam, "wc": wc, "threading": threading, "threading_ctor": threading if rs.random() < 0.7 else (not threading), "oracles": [], "uuid_seed": rs.getrandbits(32), "mode": mode,
           "strategy": ns.families[fam]["strategy"], "kinds": [G.pick(rs, ["dict", "list"]) for _ in range(4)],
           "nres": 1 if mode in ("unbuffered", "unserialisable-flush") else rs.choice([1, 2, 3, 4]), "big": rs.random() < 0.25,
           # a share of runs uses file names so long that the temp-file name exceeds NAME_MAX (the save must then fail cleanly)
           "name_pad": 225 if rs.random() < 0.08 else 0, "surrogates": rs.random() < 0.3}
    return cfg


def scenario(cfg, seed, i, kill_at=None, want_states=False):
    """Executed in a forked child. Returns a result dict."""
    ns = lib.load()
    rg = stream(seed, ID, i, "gen")
    # objects may be constructed while threading support is in the OTHER state than at save time (the write mode in
    # effect at the save decides)
    w = World(dict(cfg, threading=cfg.get("threading_ctor", cfg["threading"])))
    w.cfg = dict(w.cfg)
    try:
        fresh = w.fresh
        # ---- setup: files with old content, one object each, a few ordinary ops ----
        for r in range(cfg["nres"]):
            init = gen_value(rg, fresh, 2, cfg["kinds"][r], 3) if rg.random() < 0.85 else None
            if init is not None and cfg["big"]:
                pad = ["pad-%d" % k * 6 for k in range(60)]
                if cfg["kinds"][r] == "dict":
                    init["pad"] = pad
                else:
                    init.append(pad)
            w.step({"t": "new_res", "family": cfg["family"], "kind": cfg["kinds"][r], "init": init})
        for r in range(cfg["nres"]):
            w.step({"t": "new_obj", "rid": r, "wc": cfg["wc"]})
        if cfg.get("threading_ctor", cfg["threading"]) != cfg["threading"]:
            for fam_ in ns.json_families:
                for k_ in ("d", "l"):
                    c_ = ns.families[fam_][k_]
                    (c_.enable_multithreading if cfg["threading"] else c_.disable_multithreading)()
        for _ in range(rg.randint(0, 3)):
            h = G.pick(rg, G.attached_handles(w))
            st = G.gen_navigate_step(rg, w, h) if rg.random() < 0.4 else None
            w.step(st or G.gen_op_step(rg, w, h, depth=2, mut_weight=0.8))
        mode = cfg["mode"]
        label = mode
        bad = None
        if mode == "unserialisable-flush":
            # unserialisable content enters the shared-memory buffer; the flush at the context exit must raise and leave the file alone
            o = w.objs[0]
            r0 = w.res[0]
            kinds = [cfg["kinds"][0]]
            if rg.random() < 0.5:
                cm = o.o.buffered
            else:
                cm = w.cls_of(cfg["family"], cfg["kinds"][0]).buffer_backend()
            cm.__enter__()
            if r0.kind == "dict":
                o.o["huge"] = 10 ** 5000
            else:
                o.o.append(10 ** 5000)
            bad = "bigint"
            label = "unserialisable-flush-bigint"
            fn = lambda: cm.__exit__(None, None, None)   # noqa
            old = dir_state(w)
            expect_new = [deep(x.model) for x in w.res]
            mode = "unserialisable"
        elif mode == "flush":
            kinds = sorted({cfg["kinds"][r] for r in range(cfg["nres"])})
            shape = rg.choice(["obj", "backend", "forced"])
            if shape == "obj":
                for o in w.objs:
                    w.step({"t": "enter", "ctx": "obj", "oid": o.oid})
            else:
                for k in kinds:
                    w.step({"t": "enter", "ctx": "backend", "family": cfg["family"], "kind": k})
            for _ in range(rg.randint(1, 6)):
                h = G.pick(rg, G.attached_handles(w))
                w.step(G.gen_op_step(rg, w, h, depth=2, mut_weight=0.85))
            label = "flush-" + shape
            if shape == "forced":
                cls = w.cls_of(cfg["family"], G.pick(rg, kinds))
                fn = lambda: cls.set_buffer_capacity(0)   # noqa
            else:
                def fn():
                    while w.ctx:
                        c = w.ctx.pop()
                        (w.objs[c["oid"]].o.buffered if c["kind"] == "obj" else c["cm"]).__exit__(None, None, None)
            old = dir_state(w)
            expect_new = [deep(r.model) for r in w.res]
        else:
            hs = G.attached_handles(w)
            nested = [h for h in hs if h.path]
            h = G.pick(rg, nested) if nested and rg.random() < 0.5 else G.pick(rg, hs)
            r = w.res[w.objs[h.oid].rid]
            c = get_path(r.model, h.path)
            for _ in range(30):
                st = G.gen_op_step(rg, w, h, depth=2, mut_weight=1.0)
                trial = deep(r.model)
                mres = M.model_apply(get_path(trial, h.path), st["name"], M.dec(st["args"], None))
                if st["name"] != "popitem" and not isinstance(mres, M.Raised):
                    break
            args = M.dec(st["args"], None)
            if cfg.get("surrogates") and mode == "unbuffered" and st["name"] in ("setitem", "append", "insert", "setdefault") and rg.random() < 0.6:
                # a string with a lone surrogate (what os.fsdecode returns for a non-UTF-8 file name): valid content for the
                # library's encoder; a save that fails on it must not have touched the file
                sv = "\udc80surrogate\udcff"
                if st["name"] in ("setitem", "insert", "setdefault") and len(args) > 1:
                    args[-1] = sv
                    st["args"][-1] = sv
                elif st["name"] == "append":
                    args[0] = sv
                    st["args"][0] = sv
                trial = deep(r.model)
                M.model_apply(get_path(trial, h.path), st["name"], M.dec(st["args"], None))
            if mode == "unserialisable":
                kind_bad = rg.choice(["bigint", "bigint", "TypeError", "ValueError", "RecursionError", "MemoryError"])
                bad = kind_bad
                if kind_bad == "bigint":
                    v = 10 ** 5000
                    if h.kind == "dict":
                        st = {"name": "setitem", "args": ["huge", v]}
                    else:
                        st = {"name": "append", "args": [v]}
                    args = st["args"]
                    trial = deep(r.model)
                else:
                    w.seams.arm({"at": 0, "exc": (kind_bad,), "only": {"dumps"}})
                label = "unserialisable-" + kind_bad
            node = h.node
            fn = lambda: M._lib_apply(node, st["name"], args, False)   # noqa
            old = dir_state(w)
            expect_new = [deep(x.model) for x in w.res]
            if mode != "unserialisable":
                expect_new[r.rid] = trial
            label += ":" + st["name"] + ("@nested" if h.path else "@root")
        old_parsed = [parse(b) for b in old]
        res, states, nevents, info = instrumented(w, fn, rg, kill_at)
        w.seams.disarm()
        out = {"label": label, "cfg": cfg, "nstates": len(states), "nevents": nevents, "torn": info["torn"], "between": info["between"],
               "viol": None, "raised": repr(res).replace(w.dir, "<rundir>") if isinstance(res, M.Raised) else None, "bad": bad}
        atomic = cfg["wc"] or cfg["threading"]
        if want_states:
            out["states_by_event"] = {ev: hashlib.sha256(repr(st).encode()).hexdigest()[:16] for st, (ev, lab) in states.items()}
        if mode == "unserialisable":
            if not isinstance(res, M.Raised):
                out["viol"] = {"kind": "unserialisable_accepted", "msg": f"{label}: the operation did not raise"}
            else:
                for st in states:
                    if st != old:
                        ev = states[st]
                        out["viol"] = {"kind": "file_damaged_by_unserialisable_content", "msg": f"{label} (wc={cfg['wc']}, threading={cfg['threading']}): at event {ev} the "
                                       f"files hold {[None if b is None else b[:60] for b in st]!r}, before: {[None if b is None else b[:60] for b in old]!r}"}
                        break
            return out
        if isinstance(res, M.Raised) and not isinstance(res.exc, (KeyError, IndexError)) or (isinstance(res, M.Raised) and not atomic):
            # an operation that RAISED (encoder failure, OSError from an over-long temp name, ...) must not have damaged
            # any file at any instant, in any write mode
            for st_, (ev, lab) in sorted(states.items(), key=lambda kv: kv[1][0]):
                for rid, b in enumerate(st_):
                    got = parse(b)
                    olds = old_parsed[rid]
                    same_old = (got is ABSENT and olds is ABSENT) or (got is not ABSENT and olds is not ABSENT and not (isinstance(got, tuple) and got and got[0] == "<unparsable>") and same(got, olds))
                    if not same_old and not (atomic and not (isinstance(got, tuple) and got and got[0] == "<unparsable>") and got is not ABSENT and same(got, expect_new[rid])):
                        out["viol"] = {"kind": "file_damaged_by_failed_save", "msg": f"{label} (wc={cfg['wc']}, threading={cfg['threading']}) raised {res!r}; at event {ev} ({lab}) file {rid} holds "
                                       f"{None if b is None else b[:80]!r}, before the call: {jsonable(olds)!r}"}
                        return out
        if not atomic:
            return out
        fresh_checked = 0
        # leave any buffered context that is still open (forced flush scenario) before opening fresh objects
        while w.ctx:
            c = w.ctx.pop()
            try:
                (w.objs[c["oid"]].o.buffered if c["kind"] == "obj" else c["cm"]).__exit__(None, None, None)
            except Exception:
                pass
        for st, (ev, lab) in sorted(states.items(), key=lambda kv: kv[1][0]):
            for rid, b in enumerate(st):
                got = parse(b)
                olds, news = old_parsed[rid], (ABSENT if expect_new[rid] is None else expect_new[rid])
                ok = (got is ABSENT and olds is ABSENT) or (got is not ABSENT and not (isinstance(got, tuple) and got and got[0] == "<unparsable>")
                                                            and ((olds is not ABSENT and same(got, olds)) or (news is not ABSENT and same(got, news))))
                if not ok:
                    out["viol"] = {"kind": "torn_state", "msg": f"{label} (wc={cfg['wc']}, threading={cfg['threading']}): a crash at event {ev} ({lab}) leaves file {rid} as "
                                   f"{None if b is None else b[:120]!r}; old={jsonable(olds)!r} new={jsonable(news)!r}"}
                    return out
                # a fresh collection opens the materialised state normally
                if b is not None and fresh_checked < 12:
                    fresh_checked += 1
                    scratch = os.path.join(w.dir, "crash-state-%d.json" % fresh_checked)
                    with seams.REAL["open"](scratch, "wb") as f:
                        f.write(b)
                    cls = w.cls_of(cfg["family"], cfg["kinds"][rid])
                    try:
                        shown = cls(filename=scratch)()
                    except Exception as e:  # noqa
                        out["viol"] = {"kind": "crash_state_unreadable", "msg": f"{label}: a fresh {cls.__name__} cannot open the state after a crash at event {ev}: {e!r}"}
                        return out
                    finally:
                        os.remove(scratch)
                    if not same(shown, got):
                        out["viol"] = {"kind": "crash_state_unreadable", "msg": f"{label}: fresh object shows {shown!r} for crash state {got!r}"}
                        return out
        # ---- whole-directory crash states (with left-over / partial temp files): a fresh collection opens them normally ----
        full = info.get("full", {})
        items = sorted(full.items(), key=lambda kv: kv[1][0])
        if len(items) > 10:
            stepn = len(items) / 10.0
            items = [items[int(j * stepn)] for j in range(10)] + [items[-1]]
        out["full_states"] = len(full)
        for n_, ((st, ex), (ev, lab)) in enumerate(items):
            scratch = os.path.join(w.dir, "crashdir-%d" % n_)
            os.makedirs(scratch, exist_ok=True)
            try:
                for rid, b in enumerate(st):
                    if b is not None:
                        with seams.REAL["open"](os.path.join(scratch, os.path.basename(w.res[rid].ident)), "wb") as f:
                            f.write(b)
                for nm, b in ex:
                    with seams.REAL["open"](os.path.join(scratch, nm), "wb") as f:
                        f.write(b)
                for rid, b in enumerate(st):
                    got = parse(b)
                    if isinstance(got, tuple) and got and got[0] == "<unparsable>":
                        continue     # reported by the torn-state oracle above
                    cls = w.cls_of(cfg["family"], cfg["kinds"][rid])
                    try:
                        shown = cls(filename=os.path.join(scratch, os.path.basename(w.res[rid].ident)))()
                    except Exception as e:  # noqa
                        out["viol"] = {"kind": "crash_state_unreadable", "msg": f"{label}: a fresh {cls.__name__} cannot open file {rid} in the directory left by a crash at "
                                       f"event {ev} ({lab}; left-over files {[(nm, len(b)) for nm, b in ex]!r}): {e!r}"}
                        return out
                    exp = got if got is not ABSENT else ({} if cfg["kinds"][rid] == "dict" else [])
                    if not same(shown, exp):
                        out["viol"] = {"kind": "crash_state_unreadable", "msg": f"{label}: in the directory left by a crash at event {ev} ({lab}; left-over files "
                                       f"{[(nm, len(b)) for nm, b in ex]!r}) a fresh {cls.__name__} shows {shown!r} for file {rid}, which holds {jsonable(exp)!r}"}
                        return out
            finally:
                shutil.rmtree(scratch, ignore_errors=True)
        return out
    finally:
        w.close()


def run_one(seed, i, tier):
    cfg = build(seed, i, tier)
    out = run_isolated(scenario, (cfg, seed, i, None, tier == "thorough" and i % 10 == 0), timeout=120)
    probes = {"crash_between_tmp_write_and_replace": out["between"], "torn_prefix_states": out["torn"],
              "unserialisable_checked": int(cfg["mode"].startswith("unserialisable"))}
    validated = 0
    if tier == "thorough" and i % 10 == 0 and out.get("states_by_event") and not out["viol"]:
        # validate predicted crash states against real kills at the same events
        rs = stream(seed, ID, i, "kill")
        evs = sorted(out["states_by_event"])
        for ev in rs.sample(evs, min(3, len(evs))):
            pred = out["states_by_event"][ev]
            real = run_killed(cfg, seed, i, ev)
            if real is None:
                continue
            validated += 1
            if real != pred:
                raise HarnessError(f"crash state predicted for event {ev} differs from the state after a real kill (run {i})")
    probes["crash_states_validated_by_kill"] = validated
    res = {"viol": None, "evals": out["nevents"], "steps": out["nevents"], "probes": probes,
           "faults": {"crash": out["nevents"], "torn_write": out["torn"], "encoder_error": int(bool(out["bad"]) and out["bad"] != "bigint"),
                      "unserialisable_content": int(out["bad"] == "bigint")},
           "stats": {"saves": 1, "distinct_states": out["nstates"]},
           "sigs": [digest([out["label"], cfg["family"], cfg["wc"], cfg["threading"], k]) for k in range(out["nstates"])]}
    res["logd"] = digest([out["label"], out["nstates"], out["nevents"], out["torn"], out["raised"], out["viol"] and out["viol"]["kind"]])
    if i % 199 == 0 or out["viol"]:
        res["sample"] = {"run_index": i, "save": out["label"], "family": cfg["family"], "write_concern": cfg["wc"], "threading": cfg["threading"],
                         "crash_points": out["nevents"], "distinct_directory_states": out["nstates"], "torn_prefixes": out["torn"], "raised": out["raised"]}
    if out["viol"]:
        v = out["viol"]
        v.update(index=i, replay={"cfg": cfg, "seed": seed, "index": i})
        res["viol"] = v
    return res


def run_killed(cfg, seed, i, ev):
    """Re-run the scenario in a forked child that dies (os._exit(137)) at event ev; return the hash of the real
    directory state it leaves behind (same hashing as states_by_event)."""
    base = "/dev/shm/verif-kill-%d-%d" % (os.getpid(), i)
    shutil.rmtree(base, ignore_errors=True)
    try:
        pid = os.fork()
        if pid == 0:
            try:
                os.environ["VERIF_FIXED_DIR"] = base
                scenario(cfg, seed, i, kill_at=ev)
            finally:
                os._exit(0)
        _, status = os.waitpid(pid, 0)
        if os.waitstatus_to_exitcode(status) != 137:
            return None
        st = []
        for rid in range(cfg["nres"]):
            p = os.path.join(base, f"r{rid}{'x' * int(cfg.get('name_pad', 0))}.json")   # same name as seqsim.World gives it
            try:
                with seams.REAL["open"](p, "rb") as f:
                    st.append(f.read())
            except FileNotFoundError:
                st.append(None)
        return hashlib.sha256(repr(tuple(st)).encode()).hexdigest()[:16]
    finally:
        shutil.rmtree(base, ignore_errors=True)


def replay(payload):
    out = run_isolated(scenario, (payload["cfg"], payload["seed"], payload["index"]), timeout=120)
    return out["viol"]
