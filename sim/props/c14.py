"""C14 - readers next to writers: no lost update, no impossible state, no error."""
import sys
from . import _thr, c09
from ..core import lib
from ..core.values import Fresh, stream, digest, jsonable, get_path
from ..engines import seqgen as G

ID = "C14"
ENGINE = "threadsim"
LEVEL = "exploration"
ISOLATE = True
RUN_TIMEOUT = 60
RUNS = {"quick": 12000, "thorough": 300000}
CHUNK = 100
RULE = ("programs with >=1 reader thread (getitem/get/len/iter/()/==/in/keys/values/items/reversed/index/count and "
        "navigation to a nested child) next to >=1 writer thread (any mutator) on ONE JSON file, 2-3 objects of one "
        "class, unbuffered and inside buffered contexts entered by the main thread (backend-wide, serialized strategy); "
        "seeded schedules as in C09 (pre-emption at every library line / lock operation). Oracle: linearizability "
        "INCLUDING the reads (each read returns the model's value at some point between its invocation and return), "
        "final content contains every writer's update, nobody raises, no deadlock, no leaked lock. The two listed open "
        "findings (C14-F1: a thread reads through an object that another thread uses; C14-F2: shared-memory buffered "
        "objects on one file read and written concurrently) are excluded by generator constraints - in the explored "
        "programs every reader thread has an object of its own - and replayed from their witnesses on every run. "
        "Non-trivial = a reader was pre-empted inside a read or ran while a writer was inside an operation; distinct = "
        "(program shape, switch sites) hashes.")
ASSUMPTIONS = c09.ASSUMPTIONS + ["readers on an object used by another thread are the OPEN finding C14-F1 (reads reload and rewrite "
                                 "the shared in-memory tree without the lock and bump the shared suspend counter): not generated",
                                 "shared-memory buffered objects on one file used concurrently are the OPEN finding C14-F2: not generated"]
COMPONENTS = c09.COMPONENTS
EXPECT_PROBES = {"quick": ["preempt_in_op", "reader_ops", "scan_runs", "scan_known_site_failures"],
                 "thorough": ["preempt_in_op", "reader_ops", "scan_runs", "scan_known_site_failures"]}


def build(seed, i, tier, avoid=True, force=None):
    ns = lib.load()
    rs = stream(seed, ID, i, "cfg")
    fresh = Fresh()
    mode = rs.choice(["unbuffered", "unbuffered", "backend"])
    if force:
        mode = force.get("mode", mode)
    fams = ns.json_families if mode == "unbuffered" else [f for f in ns.buffered_families if ns.families[f]["strategy"] == "serialized" or not avoid]
    if force and force.get("families"):
        fams = force["families"]
    fam = G.pick(rs, fams)
    kind = G.pick(rs, ["dict", "list"])
    nwriters = rs.choice([1, 1, 2])
    nreaders = rs.choice([1, 1, 2])
    same_object = (not avoid)
    nobj = 1 if same_object and rs.random() < 0.7 else (rs.choice([1, 2]) + nreaders)
    if force and force.get("nobj"):
        nobj = force["nobj"]
    cfg = {"prop": ID, "family": fam, "kind": kind, "wc": rs.random() < 0.5, "threading": True, "oracles": [],
           "uuid_seed": rs.getrandbits(32), "opcode": rs.random() < (0.15 if tier == "thorough" else 0.06)}
    init = _thr.init_content(kind, fresh)
    fresh_file = mode == "unbuffered" and avoid and rs.random() < 0.2
    if fresh_file:
        init = {} if kind == "dict" else []   # the file does not exist yet: the first write creates it next to the readers
    pre = [{"t": "new_res", "family": fam, "kind": kind, "init": None if fresh_file else init}]
    late_threading = rs.random() < 0.3
    if late_threading:
        # the objects are constructed while threading support is switched OFF; it is switched on before the threads start
        pre.append({"t": "threading", "on": False})
    for _ in range(nobj):
        pre.append({"t": "new_obj", "rid": 0, "wc": cfg["wc"]})
    if late_threading:
        pre.append({"t": "threading", "on": True})
    paths = _thr.CHILD_PATHS[kind] if not fresh_file else []
    hpaths = [[] for _ in range(nobj)]
    hobj = list(range(nobj))
    for o in range(nobj):
        base = len(hpaths)
        for j, p in enumerate(paths):
            parent = o if len(p) == 1 else base + (0 if j == 2 else 1)
            pre.append({"t": "op", "hid": parent, "name": "getitem", "args": [p[-1]], "keep": True, "hid_new": base + j})
            hpaths.append(p)
            hobj.append(o)
    # object assignment: each reader gets an object of its own (avoid mode); writers share the remaining ones
    if avoid:
        reader_objs = list(range(nobj - nreaders, nobj))
        writer_objs = list(range(0, nobj - nreaders))
    else:
        reader_objs = [rs.randrange(nobj) for _ in range(nreaders)]
        writer_objs = list(range(nobj))
    plan, used = [], []
    for t in range(nwriters):
        tp = []
        for _ in range(rs.choice([1, 2, 3])):
            hs = [h for h in range(len(hpaths)) if hobj[h] in writer_objs]
            h = G.pick(rs, hs)
            tp.append((h, False))
            used.append(hpaths[h])
        plan.append(tp)
    for t in range(nreaders):
        tp = []
        for _ in range(rs.choice([1, 2, 3])):
            hs = [h for h in range(len(hpaths)) if hobj[h] == reader_objs[t]]
            h = G.pick(rs, hs)
            tp.append((h, True))
            used.append(hpaths[h])
        plan.append(tp)
    progs = []
    for tp in plan:
        ops = []
        for h, is_reader in tp:
            c = get_path(init, hpaths[h])
            k = "dict" if isinstance(c, dict) else "list"
            for attempt in range(20):
                name, args = _thr.gen_thread_op(rs, fresh, k, c, readers=is_reader, attr=ns.families[fam]["attr"] and not hpaths[h] or
                                                (ns.families[fam]["attr"] and k == "dict"))
                if is_reader or _thr.allowed(hpaths[h], k, name, args, used):
                    break
            else:
                name, args = ("setitem", ["x", fresh.int()]) if k == "dict" else ("append", [fresh.int()])
            ops.append({"h": h, "name": name, "args": args, "reader": is_reader})
        progs.append(ops)
    r = rs.random()
    nthreads = len(progs)
    if r < 0.4:
        strat = {"kind": "random", "p": rs.choice([0.02, 0.1, 0.3])}
    elif r < 0.6:
        strat = {"kind": "pct", "d": rs.choice([1, 2, 3]), "est": rs.choice([150, 400, 800])}
    else:
        order = [f"T{x}" for x in range(nthreads)]
        rs.shuffle(order)
        strat = {"kind": "single", "first": order[0], "k": rs.randrange(0, rs.choice([60, 200, 500])), "order": order}
    ctx = None
    if mode == "backend":
        cap = rs.choice([None, None, 0, 60, 200])
        if avoid:
            cap = None   # open finding C14-F3: capacity-forced flushes touch every registered object from any thread
        ctx = [{"kind": "backend", "family": fam, "rkind": kind, "cap": cap}]
    return {"cfg": cfg, "pre": pre, "progs": progs, "strat": strat, "sched_seed": f"{seed}/{ID}/{i}", "shape": mode,
            "ctx": ctx, "avoid": avoid}


def run_payload(payload):
    out = _thr.execute(payload["cfg"], payload["progs"], payload["strat"], payload["sched_seed"], payload["pre"], payload.get("ctx"))
    return out, c09.judge(payload, out)


def run_one(seed, i, tier):
    from ..core.runner import run_isolated
    payload = build(seed, i, tier)
    out, v = run_isolated(run_payload, (payload,), timeout=RUN_TIMEOUT)
    nread = sum(1 for p in payload["progs"] for o in p if o.get("reader"))
    res = {"viol": None, "steps": out["steps"], "probes": {"preempt_in_op": out["preempt_in_op"], "lock_contended": out["contended"],
                                                             "switches": out["switches"], "reader_ops": nread},
           "faults": {"preemption": out["switches"]}, "stats": {"ops": len(out["history"])}}
    res["logd"] = digest(jsonable([payload["progs"], out["choices"], _thr.describe_history(out), out["final"]]))
    if out["preempt_in_op"]:
        res["sig"] = digest([payload["shape"], [[(o["h"], o["name"]) for o in p] for p in payload["progs"]], out["switch_sites"]])
    if i % 499 == 0 or v:
        res["sample"] = {"run_index": i, "programs": jsonable(payload["progs"]), "strategy": payload["strat"], "mode": payload["shape"],
                         "history": _thr.describe_history(out)[:1500]}
    if v:
        rp = dict(payload)
        rp["strat"] = {"kind": "forced", "choices": out["choices"]}
        v.update(index=i, replay=rp)
        res["viol"] = v
    return res


def replay(payload):
    return _thr.witness_replay(run_payload, payload, RUN_TIMEOUT)


def minimise(payload, viol):
    saved = c09.run_payload
    c09.run_payload = run_payload
    try:
        return c09.minimise(payload, viol)
    finally:
        c09.run_payload = saved


# ---------------------------------------------------------------------------------------------------------------------
# Site-differential scan of the OPEN findings (C14-F1..F3).
# The generator above never produces the listed patterns; this scan looks INSIDE them: for a fixed set of small
# reader/writer scenarios every single-pre-emption schedule (first thread pre-empted after k yield points, k = 0..KMAX,
# the other thread runs to completion, the first resumes; both directions) is executed.  A failing schedule is
# identified by (scenario, direction, library function in which the first thread was pre-empted, violation kind,
# exception class).  The set observed on the unchanged tree is committed in findings/C14-known-sites.json (written by
# tools/gen_c14_sites.py, never at check time); a failing schedule OUTSIDE that set is a different violation of C14 and
# is reported.
KMAX = 1800   # upper bound on the yield points of the first thread (measured 205..1610 on the pinned tree)
SCENARIOS = [
    # id, finding, family, kind, ctx cap ('none' = unbuffered), nobj, reader (obj, path, op, args), writer (obj, path, op, args)
    ("F1-d-call-del", "C14-F1", "JSON", "dict", "none", 1, (0, [], "call", []), (0, [], "delitem", ["a"])),
    ("F1-d-get-set", "C14-F1", "JSON", "dict", "none", 1, (0, [], "getitem", ["n"]), (0, [], "setitem", ["x", 101])),
    ("F1-d-len-update", "C14-F1", "JSON", "dict", "none", 1, (0, [], "len", []), (0, [], "update", [{"x": 102, "a": 103}])),
    ("F1-d-child", "C14-F1", "JSON", "dict", "none", 1, (0, ["n"], "call", []), (0, ["n"], "setitem", ["p", 104])),
    ("F1-l-call-append", "C14-F1", "JSON", "list", "none", 1, (0, [], "call", []), (0, [], "append", [105])),
    ("F1-l-get-insert", "C14-F1", "MemoryBufferedJSON", "list", "none", 1, (0, [], "getitem", [0]), (0, [], "insert", [0, 106])),
    ("F1-b-call-set", "C14-F1", "BufferedJSON", "dict", None, 1, (0, [], "call", []), (0, [], "setitem", ["x", 107])),
    ("F2-d-call-set", "C14-F2", "MemoryBufferedJSON", "dict", None, 2, (1, [], "call", []), (0, [], "setitem", ["x", 108])),
    ("F2-d-get-clear", "C14-F2", "MemoryBufferedJSON", "dict", None, 2, (1, [], "getitem", ["n"]), (0, ["n"], "clear", [])),
    ("F2-l-call-append", "C14-F2", "MemoryBufferedJSONAttr", "list", None, 2, (1, [], "call", []), (0, [], "append", [109])),
    ("F2-d-call-reset", "C14-F2", "MemoryBufferedJSON", "dict", None, 2, (1, [], "call", []), (0, [], "reset", [{"r": 110}])),
    ("F3-d-call-set", "C14-F3", "BufferedJSON", "dict", 60, 2, (1, [], "call", []), (0, [], "setitem", ["x", 111])),
    ("F3-l-call-iadd", "C14-F3", "BufferedJSON", "list", 60, 2, (1, [], "call", []), (0, [], "iadd", [[112, 113]])),
    ("F3-l-get-append", "C14-F3", "BufferedJSONAttr", "list", 0, 2, (1, [], "getitem", [0]), (0, [], "append", [114])),
    # (added later, at the end so that the scan indices of the scenarios above stay what they were)
    # same object read and written inside a shared-memory buffered context
    ("F1-m-call-set", "C14-F1", "MemoryBufferedJSON", "dict", None, 1, (0, [], "call", []), (0, [], "setitem", ["x", 115])),
    ("F1-m-len-append", "C14-F1", "MemoryBufferedJSONAttr", "list", None, 1, (0, [], "len", []), (0, [], "append", [116])),
    # a multi-key mapping assigned over an existing nested dict next to a reader of the whole document (atomic publication)
    ("F2-d-call-setmulti", "C14-F2", "MemoryBufferedJSON", "dict", None, 2, (1, [], "call", []), (0, [], "setitem", ["n", {"p": 117, "q": {"r": 118}, "s": 119}])),
    ("F1-d-call-setmulti", "C14-F1", "JSON", "dict", "none", 1, (0, [], "call", []), (0, [], "setitem", ["n", {"p": 120, "q": {"r": 121}, "s": 122}])),
    # NOT inside an open finding (private reader object): the objects are constructed while threading support is OFF and it
    # is switched on before the threads start - the write mode in effect at the save decides; no failing site is expected
    ("LT-d-call-set", "-", "JSON", "dict", "none", 2, (1, [], "call", []), (0, [], "setitem", ["x", 123])),
    ("LT-l-len-append", "-", "BufferedJSON", "list", "none", 2, (1, [], "len", []), (0, [], "append", [124])),
]
NSCAN = len(SCENARIOS) * 2 * KMAX
_known = {}


def known_sites():
    if "k" not in _known:
        import json
        import os
        p = os.path.join(os.path.dirname(os.path.dirname(os.path.dirname(os.path.abspath(__file__)))), "findings", "C14-known-sites.json")
        _known["k"] = set(tuple(x) for x in json.load(open(p))["sites"]) if os.path.exists(p) else set()
    return _known["k"]


def scan_payload(j):
    sc = SCENARIOS[j // (2 * KMAX)]
    direction = (j // KMAX) % 2
    k = j % KMAX
    sid, fid, fam, kind, cap, nobj, rd, wr = sc
    fresh = Fresh()
    cfg = {"prop": ID, "family": fam, "kind": kind, "wc": False, "threading": True, "oracles": [], "uuid_seed": 7, "opcode": False}
    init = _thr.init_content(kind, fresh)
    pre = [{"t": "new_res", "family": fam, "kind": kind, "init": init}]
    if sid.startswith("LT-"):
        pre.append({"t": "threading", "on": False})
    for _ in range(nobj):
        pre.append({"t": "new_obj", "rid": 0, "wc": False})
    if sid.startswith("LT-"):
        pre.append({"t": "threading", "on": True})
    hids = {}
    nxt = nobj
    for o, path, _, _ in (rd, wr):
        cur, hid = [], o
        for key in path:
            cur = cur + [key]
            if (o, tuple(cur)) not in hids:
                pre.append({"t": "op", "hid": hid, "name": "getitem", "args": [key], "keep": True, "hid_new": nxt})
                hids[(o, tuple(cur))] = nxt
                nxt += 1
            hid = hids[(o, tuple(cur))]
    def hid_of(o, path):
        return o if not path else hids[(o, tuple(path))]
    progs = [[{"h": hid_of(rd[0], rd[1]), "name": rd[2], "args": rd[3], "reader": True}],
             [{"h": hid_of(wr[0], wr[1]), "name": wr[2], "args": wr[3], "reader": False}]]
    first = "T0" if direction == 0 else "T1"
    strat = {"kind": "single", "first": first, "k": k, "order": [first, "T1" if first == "T0" else "T0"]}
    ctx = None if cap == "none" else [{"kind": "backend", "family": fam, "rkind": kind, "cap": cap}]
    return {"cfg": cfg, "pre": pre, "progs": progs, "strat": strat, "sched_seed": f"scan/{sid}", "shape": "scan", "ctx": ctx,
            "scenario": sid, "finding": fid, "direction": "reader-first" if direction == 0 else "writer-first", "k": k}


def scan_element(payload, out, v):
    # identity of the pre-emption site = semantic phase of the pre-empted thread (seam calls completed, lock kinds
    # held), NOT a function name or line: a behaviour-preserving refactoring must not change it
    site = None
    for ph in out.get("switch_phases", []):
        site = ph
        break
    exc = sorted({r["exc"] for r in out["history"] if r.get("exc")})
    return (payload["scenario"], payload["direction"], site or "-", v["kind"], ",".join(exc))


def scan_one(j):
    payload = scan_payload(j)
    out, v = run_payload(payload)
    first = payload["strat"]["first"]
    beyond = out.get("points", {}).get(first, 0) < payload["k"]   # k is past the end of the first thread: nothing new
    return payload, out, v, beyond


_npoints = {}


def first_thread_points(j):
    """Number of yield points the first thread of scan run j executes when it runs alone first (probed once per worker
    and (scenario, direction) with k = KMAX-1); pre-emption indices beyond it add nothing and are skipped."""
    key = j // KMAX
    if key not in _npoints:
        from ..core.runner import run_isolated
        payload, out, v, beyond = run_isolated(scan_one, (key * KMAX + KMAX - 1,), timeout=RUN_TIMEOUT)
        _npoints[key] = out.get("points", {}).get(payload["strat"]["first"], KMAX)
    return _npoints[key]


_orig_run_one = run_one


def run_one(seed, i, tier):  # noqa: F811
    if i >= NSCAN:
        return _orig_run_one(seed, i - NSCAN, tier)
    k = i % KMAX
    skip = {"viol": None, "steps": 0, "probes": {"scan_skipped": 1}, "faults": {}, "stats": {}, "logd": "skipped", "evals": 0}
    if tier == "quick" and (k + seed) % 2:
        return skip            # quick tier: every second pre-emption index (which half depends on the seed)
    if k > first_thread_points(i) + 2:
        return skip
    from ..core.runner import run_isolated
    payload, out, v, beyond = run_isolated(scan_one, (i,), timeout=RUN_TIMEOUT)
    res = {"viol": None, "steps": out["steps"], "probes": {"scan_runs": 1, "scan_beyond_end": int(beyond)}, "faults": {"preemption": out["switches"]},
           "stats": {}, "logd": digest(jsonable([payload["scenario"], payload["direction"], payload["k"], _thr.describe_history(out), out["final"]]))}
    if v:
        el = scan_element(payload, out, v)
        if el in known_sites():
            res["probes"]["scan_known_site_failures"] = 1
            res["sig"] = digest(list(el))
        else:
            v = dict(v, index=i, replay=payload, bucket=el[:3],
                     msg=(f"[inside the pattern of open finding {payload['finding']}, but NOT one of its listed failing pre-emption sites] " if payload["finding"] != "-" else "[single pre-emption scan] ") + f"scenario {el[0]} "
                         f"{el[1]}, first thread pre-empted in {el[2]} after {payload['k']} points: {v['msg'][:700]}")
            res["viol"] = v
    return res


ISOLATE = False   # run_one isolates internally (scan runs and random runs each fork their own child)
RUNS = {"quick": NSCAN + 8000, "thorough": NSCAN + 300000}
CHUNK = 200
WALL_CAP = {"quick": 420, "thorough": 2400}   # (the scan is a fixed enumeration: it must not be cut short on a loaded machine)
