"""C14 - readers next to writers: no lost update, no impossible state, no error."""
import sys
from . import _thr, c09
from ..core import lib
from ..core.values import Fresh, stream, digest, jsonable, get_path
from ..engines import seqgen as G

ID = "C14"
ENGINE = "threadsim"
LEVEL = "exploration"
ISOLATE = True
RUN_TIMEOUT = 60
RUNS = {"quick": 12000, "thorough": 300000}
CHUNK = 100
RULE = ("programs with >=1 reader thread (getitem/get/len/iter/()/==/in/keys/values/items/reversed/index/count and "
        "navigation to a nested child) next to >=1 writer thread (any mutator) on ONE JSON file, 2-3 objects of one "
        "class, unbuffered and inside buffered contexts entered by the main thread (backend-wide, serialized strategy); "
        "seeded schedules as in C09 (pre-emption at every library line / lock operation). Oracle: linearizability "
        "INCLUDING the reads (each read returns the model's value at some point between its invocation and return), "
        "final content contains every writer's update, nobody raises, no deadlock, no leaked lock. The two listed open "
        "findings (C14-F1: a thread reads through an object that another thread uses; C14-F2: shared-memory buffered "
        "objects on one file read and written concurrently) are excluded by generator constraints - in the explored "
        "programs every reader thread has an object of its own - and replayed from their witnesses on every run. "
        "Non-trivial = a reader was pre-empted inside a read or ran while a writer was inside an operation; distinct = "
        "(program shape, switch sites) hashes.")
ASSUMPTIONS = c09.ASSUMPTIONS + ["readers on an object used by another thread are the OPEN finding C14-F1 (reads reload and rewrite "
                                 "the shared in-memory tree without the lock and bump the shared suspend counter): not generated",
                                 "shared-memory buffered objects on one file used concurrently are the OPEN finding C14-F2: not generated"]
COMPONENTS = c09.COMPONENTS
EXPECT_PROBES = {"quick": ["preempt_in_op", "reader_ops"], "thorough": ["preempt_in_op", "reader_ops"]}


def build(seed, i, tier, avoid=True, force=None):
    ns = lib.load()
    rs = stream(seed, ID, i, "cfg")
    fresh = Fresh()
    mode = rs.choice(["unbuffered", "unbuffered", "backend"])
    if force:
        mode = force.get("mode", mode)
    fams = ns.json_families if mode == "unbuffered" else [f for f in ns.buffered_families if ns.families[f]["strategy"] == "serialized" or not avoid]
    if force and force.get("families"):
        fams = force["families"]
    fam = G.pick(rs, fams)
    kind = G.pick(rs, ["dict", "list"])
    nwriters = rs.choice([1, 1, 2])
    nreaders = rs.choice([1, 1, 2])
    same_object = (not avoid)
    nobj = 1 if same_object and rs.random() < 0.7 else (rs.choice([1, 2]) + nreaders)
    if force and force.get("nobj"):
        nobj = force["nobj"]
    cfg = {"prop": ID, "family": fam, "kind": kind, "wc": rs.random() < 0.5, "threading": True, "oracles": [],
           "uuid_seed": rs.getrandbits(32), "opcode": tier == "thorough" and rs.random() < 0.15}
    init = _thr.init_content(kind, fresh)
    pre = [{"t": "new_res", "family": fam, "kind": kind, "init": init}]
    for _ in range(nobj):
        pre.append({"t": "new_obj", "rid": 0, "wc": cfg["wc"]})
    paths = _thr.CHILD_PATHS[kind]
    hpaths = [[] for _ in range(nobj)]
    hobj = list(range(nobj))
    for o in range(nobj):
        base = len(hpaths)
        for j, p in enumerate(paths):
            parent = o if len(p) == 1 else base + (0 if j == 2 else 1)
            pre.append({"t": "op", "hid": parent, "name": "getitem", "args": [p[-1]], "keep": True, "hid_new": base + j})
            hpaths.append(p)
            hobj.append(o)
    # object assignment: each reader gets an object of its own (avoid mode); writers share the remaining ones
    if avoid:
        reader_objs = list(range(nobj - nreaders, nobj))
        writer_objs = list(range(0, nobj - nreaders))
    else:
        reader_objs = [rs.randrange(nobj) for _ in range(nreaders)]
        writer_objs = list(range(nobj))
    plan, used = [], []
    for t in range(nwriters):
        tp = []
        for _ in range(rs.choice([1, 2, 3])):
            hs = [h for h in range(len(hpaths)) if hobj[h] in writer_objs]
            h = G.pick(rs, hs)
            tp.append((h, False))
            used.append(hpaths[h])
        plan.append(tp)
    for t in range(nreaders):
        tp = []
        for _ in range(rs.choice([1, 2, 3])):
            hs = [h for h in range(len(hpaths)) if hobj[h] == reader_objs[t]]
            h = G.pick(rs, hs)
            tp.append((h, True))
            used.append(hpaths[h])
        plan.append(tp)
    progs = []
    for tp in plan:
        ops = []
        for h, is_reader in tp:
            c = get_path(init, hpaths[h])
            k = "dict" if isinstance(c, dict) else "list"
            for attempt in range(20):
                name, args = _thr.gen_thread_op(rs, fresh, k, c, readers=is_reader)
                if is_reader or _thr.allowed(hpaths[h], k, name, args, used):
                    break
            else:
                name, args = ("setitem", ["x", fresh.int()]) if k == "dict" else ("append", [fresh.int()])
            ops.append({"h": h, "name": name, "args": args, "reader": is_reader})
        progs.append(ops)
    r = rs.random()
    nthreads = len(progs)
    if r < 0.4:
        strat = {"kind": "random", "p": rs.choice([0.02, 0.1, 0.3])}
    elif r < 0.6:
        strat = {"kind": "pct", "d": rs.choice([1, 2, 3]), "est": rs.choice([150, 400, 800])}
    else:
        order = [f"T{x}" for x in range(nthreads)]
        rs.shuffle(order)
        strat = {"kind": "single", "first": order[0], "k": rs.randrange(0, rs.choice([60, 200, 500])), "order": order}
    ctx = None
    if mode == "backend":
        cap = rs.choice([None, None, 0, 60, 200])
        if avoid:
            cap = None   # open finding C14-F3: capacity-forced flushes touch every registered object from any thread
        ctx = [{"kind": "backend", "family": fam, "rkind": kind, "cap": cap}]
    return {"cfg": cfg, "pre": pre, "progs": progs, "strat": strat, "sched_seed": f"{seed}/{ID}/{i}", "shape": mode,
            "ctx": ctx, "avoid": avoid}


def run_payload(payload):
    out = _thr.execute(payload["cfg"], payload["progs"], payload["strat"], payload["sched_seed"], payload["pre"], payload.get("ctx"))
    return out, c09.judge(payload, out)


def run_one(seed, i, tier):
    payload = build(seed, i, tier)
    out, v = run_payload(payload)
    nread = sum(1 for p in payload["progs"] for o in p if o.get("reader"))
    res = {"viol": None, "steps": out["steps"], "probes": {"preempt_in_op": out["preempt_in_op"], "lock_contended": out["contended"],
                                                             "switches": out["switches"], "reader_ops": nread},
           "faults": {"preemption": out["switches"]}, "stats": {"ops": len(out["history"])}}
    res["logd"] = digest(jsonable([payload["progs"], out["choices"], _thr.describe_history(out), out["final"]]))
    if out["preempt_in_op"]:
        res["sig"] = digest([payload["shape"], [[(o["h"], o["name"]) for o in p] for p in payload["progs"]], out["switch_sites"]])
    if i % 499 == 0 or v:
        res["sample"] = {"run_index": i, "programs": jsonable(payload["progs"]), "strategy": payload["strat"], "mode": payload["shape"],
                         "history": _thr.describe_history(out)[:1500]}
    if v:
        rp = dict(payload)
        rp["strat"] = {"kind": "forced", "choices": out["choices"]}
        v.update(index=i, replay=rp)
        res["viol"] = v
    return res


def replay(payload):
    from ..core.runner import run_isolated
    out, v = run_isolated(run_payload, (payload,), timeout=RUN_TIMEOUT)
    return v


def minimise(payload, viol):
    saved = c09.run_payload
    c09.run_payload = run_payload
    try:
        return c09.minimise(payload, viol)
    finally:
        c09.run_payload = saved
