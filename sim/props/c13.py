"""C13 - buffered collections stay consistent under concurrent threads."""
import sys
from . import _thr, c09
from ..core import lib, seams
from ..core.values import Fresh, stream, digest, jsonable, get_path, deep
from ..engines import seqgen as G
from ..engines import threadsim as TS

ID = "C13"
ENGINE = "threadsim"
LEVEL = "exploration"
ISOLATE = True
RUN_TIMEOUT = 60
RUNS = {"quick": 12000, "thorough": 300000}
CHUNK = 100
RULE = ("2-3 real threads x 1-3 buffered mutators (setitem, delitem, pop, update, setdefault, append, extend, insert, "
        "reset, clear, +=, reverse, remove, popitem) inside ONE backend-wide buffered context entered by the main "
        "thread, on 1-3 JSON files through the same object, different objects on one file, or objects on distinct "
        "files (handle-safe nested children included); capacities {default, 0, 1, ~one document, ~two documents} so "
        "that flushes are forced in the middle of operations; both strategies; seeded schedules as in C09. Oracle: no "
        "operation raises anything the per-file sequential model cannot explain (in particular no KeyError from the "
        "buffer, no BufferedError/MetadataError without an outside writer), no deadlock, no leaked lock; after the main "
        "thread leaves the context every file's content (and every recorded result) is explained by SOME sequential "
        "order of the operations applied to that file, and get_current_buffer_size()==0. Fault kinds: preemption, "
        "forced_flush. Non-trivial = >=1 switch inside an operation; distinct = (shape, capacity class, switch sites).")
ASSUMPTIONS = c09.ASSUMPTIONS + ["reads are generated only on a file AND object that no other thread uses (as C13 states); reads on files other threads write are C14"]
COMPONENTS = c09.COMPONENTS
EXPECT_PROBES = {"quick": ["preempt_in_op", "lock_contended", "small_capacity_runs"], "thorough": ["preempt_in_op", "lock_contended", "small_capacity_runs"]}


def build(seed, i, tier):
    ns = lib.load()
    rs = stream(seed, ID, i, "cfg")
    fresh = Fresh()
    fam = G.pick(rs, ns.buffered_families)
    kind = G.pick(rs, ["dict", "list"])
    nres = rs.choice([1, 1, 2, 3])
    nobjs = [rs.choice([1, 1, 2]) for _ in range(nres)]
    cfg = {"prop": ID, "family": fam, "kind": kind, "wc": rs.random() < 0.5, "threading": True, "oracles": [],
           "uuid_seed": rs.getrandbits(32), "opcode": rs.random() < (0.15 if tier == "thorough" else 0.06),
           "strategy": ns.families[fam]["strategy"]}
    pre, inits = [], []
    for r in range(nres):
        init = _thr.init_content(kind, fresh)
        inits.append(init)
        pre.append({"t": "new_res", "family": fam, "kind": kind, "init": init})
    obj_rid = []
    for r in range(nres):
        for _ in range(nobjs[r]):
            pre.append({"t": "new_obj", "rid": r, "wc": cfg["wc"]})
            obj_rid.append(r)
    nobj = len(obj_rid)
    paths = _thr.CHILD_PATHS[kind]
    hpaths = [[] for _ in range(nobj)]
    hrid = list(obj_rid)
    for o in range(nobj):
        base = len(hpaths)
        for j, p in enumerate(paths):
            parent = o if len(p) == 1 else base + (0 if j == 2 else 1)
            pre.append({"t": "op", "hid": parent, "name": "getitem", "args": [p[-1]], "keep": True, "hid_new": base + j})
            hpaths.append(p)
            hrid.append(obj_rid[o])
    nthreads = rs.choice([2, 2, 3])
    shape = rs.choice(["root", "root", "child", "mixed"])
    if cfg["strategy"] == "memory" and max(nobjs) > 1:
        # shared-memory strategy: nested handles of a second object taken BEFORE the buffered state are detached when
        # that object is re-pointed to the shared data (sequential effect, outside C13's statement about objects;
        # DESIGN §7): only root handles are used when a file has several objects
        shape = "root"
    plan, used = [], {r: [] for r in range(nres)}
    for t in range(nthreads):
        tp = []
        for _ in range(rs.choice([1, 2, 3])):
            if shape == "root":
                h = rs.randrange(nobj)
            elif shape == "child":
                h = rs.randrange(nobj, len(hpaths))
            else:
                h = rs.randrange(len(hpaths))
            tp.append(h)
            used[hrid[h]].append(hpaths[h])
        plan.append(tp)
    progs = []
    # (threads entering their own nested buffer_backend() around operations were tried and withdrawn: C13 speaks of threads
    #  MUTATING inside one enclosing context; the context counters are plain `+= 1` on shared state, so two threads
    #  entering/leaving contexts at the same time can lose an increment at bytecode granularity - observation in DESIGN §7.8)
    nested_ctx = False
    for tp in plan:
        ops = []
        for h in tp:
            c = get_path(inits[hrid[h]], hpaths[h])
            k = "dict" if isinstance(c, dict) else "list"
            for attempt in range(20):
                name, args = _thr.gen_thread_op(rs, fresh, k, c)
                if _thr.allowed(hpaths[h], k, name, args, used[hrid[h]]):
                    break
            else:
                name, args = ("setitem", ["x", fresh.int()]) if k == "dict" else ("append", [fresh.int()])
            op_ = {"h": h, "name": name, "args": args}
            if nested_ctx and rs.random() < 0.4:
                op_["wrap"] = "backend"     # the thread enters and leaves its own nested buffer_backend() around this operation
            ops.append(op_)
        progs.append(ops)
    # optional READER thread on a file (and object) that no other thread uses (C13 allows exactly these reads); with a small
    # capacity its first buffered access forces the flush of the files the other threads are modifying
    in_ctx_ops = []
    if rs.random() < 0.35:
        rinit = _thr.init_content(kind, fresh)
        inits.append(rinit)
        pre.insert(nres, {"t": "new_res", "family": fam, "kind": kind, "init": rinit})
        # (resources are created before objects in `pre`; append the private object last so earlier ids are unchanged)
        pre.append({"t": "new_obj", "rid": nres, "wc": cfg["wc"]})
        rh = len(hpaths)
        ropsn = rs.choice([1, 2])
        progs.append([dict(zip(("name", "args"), _thr.gen_thread_op(rs, fresh, kind, rinit, readers=True)), h=rh, reader=True) for _ in range(ropsn)])
        hpaths.append([])
        hrid.append(nres)
        private_reader = True
        # the main thread writes to some shared files inside the context first, so that modified entries exist
        for o in range(nobj):
            if rs.random() < 0.6:
                k0 = "dict" if isinstance(inits[obj_rid[o]], dict) else "list"
                in_ctx_ops.append({"h": o, "name": "setitem" if k0 == "dict" else "append", "args": (["pre%d" % o, fresh.int()] if k0 == "dict" else [fresh.int()])})
    doc = len(seams.REAL["dumps"](inits[0]))
    if cfg["strategy"] == "serialized":
        cap = rs.choice([None, None, 0, 1, doc + 10, 2 * doc + 20])
    else:
        cap = rs.choice([None, None, 0, 1, 2])
    r = rs.random()
    if r < 0.4:
        strat = {"kind": "random", "p": rs.choice([0.02, 0.1, 0.3])}
    elif r < 0.65:
        strat = {"kind": "pct", "d": rs.choice([1, 2, 3]), "est": rs.choice([150, 400, 800])}
    else:
        order = [f"T{x}" for x in range(nthreads)]
        rs.shuffle(order)
        strat = {"kind": "single", "first": order[0], "k": rs.randrange(0, rs.choice([60, 200, 500])), "order": order}
    ctx = [{"kind": "backend", "family": fam, "rkind": kind, "cap": cap}]
    # (threads that enter and leave their OWN top-level buffer_backend() contexts next to each other were tried and withdrawn:
    #  C13 speaks of threads inside ONE enclosing context; the unchanged tree raises spurious BufferedError there - recorded
    #  as an observation in DESIGN §7.8)
    nthreads = len(progs)
    if strat["kind"] == "single":
        order = [f"T{x}" for x in range(nthreads)]
        rs.shuffle(order)
        strat = {"kind": "single", "first": order[0], "k": strat["k"], "order": order}
    return {"cfg": cfg, "pre": pre, "progs": progs, "strat": strat, "sched_seed": f"{seed}/{ID}/{i}", "shape": shape,
            "ctx": ctx, "cap": cap, "in_ctx_ops": in_ctx_ops}


def judge(payload, out):
    v = c09.judge(dict(payload), out) if out["abort"] or out["errors"] or out["exit_errors"] or out["held_after"] else None
    if v:
        return v
    leaked = [r for r in out["history"] if r.get("leaked")]
    if leaked:
        return {"kind": "lock_leak", "msg": f"lock still held after an operation returned: {leaked[0]['leaked']}"}
    # per-file linearizability
    nres = len(out["init"])
    for rid in range(nres):
        sub = dict(out)
        sub["history"] = [r for r in out["history"] if out["handles"][r["h"]][0] == rid]
        sub["init"] = [out["init"][x] if x == rid else None for x in range(nres)]
        sub["final"] = [out["final"][x] if x == rid else None for x in range(nres)]
        # the other files are ignored by giving them empty content on both sides
        sub["init"] = [s if s is not None else {} for s in sub["init"]]
        sub["final"] = [f if x == rid else {} for x, f in enumerate(sub["final"])]
        if _thr.check_linearizable(sub) is None:
            return {"kind": "not_linearizable", "msg": f"file {rid}: no sequential order of its operations explains: {_thr.describe_history(sub)} | final={jsonable(out['final'][rid])} init={jsonable(out['init'][rid])}"}
    bad = {k: v for k, v in out.get("bufsize", {}).items() if v != 0}
    if bad:
        return {"kind": "buffer_size_not_zero", "msg": f"get_current_buffer_size() after the context exited: {bad}"}
    return None


def run_payload(payload):
    out = _thr.execute(payload["cfg"], payload["progs"], payload["strat"], payload["sched_seed"], payload["pre"], payload.get("ctx"),
                       in_ctx_ops=payload.get("in_ctx_ops"))
    return out, judge(payload, out)


def run_one(seed, i, tier):
    payload = build(seed, i, tier)
    out, v = run_payload(payload)
    res = {"viol": None, "steps": out["steps"], "probes": {"preempt_in_op": out["preempt_in_op"], "lock_contended": out["contended"],
                                                             "switches": out["switches"], "small_capacity_runs": int(payload["cap"] is not None)},
           "faults": {"preemption": out["switches"], "forced_flush_capacity_runs": int(payload["cap"] is not None)}, "stats": {"ops": len(out["history"])}}
    res["logd"] = digest(jsonable([payload["progs"], out["choices"], _thr.describe_history(out), out["final"]]))
    if out["preempt_in_op"]:
        res["sig"] = digest([payload["shape"], payload["cap"] is None, [[(o["h"], o["name"]) for o in p] for p in payload["progs"]], out["switch_sites"]])
    if i % 499 == 0 or v:
        res["sample"] = {"run_index": i, "programs": jsonable(payload["progs"]), "strategy": payload["strat"], "capacity": payload["cap"],
                         "history": _thr.describe_history(out)[:1500]}
    if v:
        rp = dict(payload)
        rp["strat"] = {"kind": "forced", "choices": out["choices"]}
        v.update(index=i, replay=rp)
        res["viol"] = v
    return res


def replay(payload):
    return _thr.witness_replay(run_payload, payload, RUN_TIMEOUT)


def minimise(payload, viol):
    saved = c09.run_payload
    c09.run_payload = run_payload
    try:
        return c09.minimise(payload, viol)
    finally:
        c09.run_payload = saved
