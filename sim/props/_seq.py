"""Shared plumbing for properties decided by the seqsim engine."""
from ..core.values import stream, digest, jsonable
from ..core.runner import ddmin
from ..engines import seqsim
from ..engines.seqsim import Violation, World


def run_one(prop, seed, i, tier):
    rs = stream(seed, prop.ID, i, "cfg")
    cfg = prop.make_cfg(rs, tier)
    rg = stream(seed, prop.ID, i, "gen")
    W = getattr(prop, "WorldClass", World)
    w = W(cfg)
    steps = []
    viol = None
    try:
        try:
            for st in prop.setup(w, rg):
                steps.append(st)
                w.step(st)
            for _ in range(cfg["length"]):
                st = prop.gen_step(w, rg)
                if st is None:
                    continue
                steps.append(st)
                w.step(st)
            w.finish()
        except Violation as v:
            viol = {"kind": v.kind, "msg": v.msg}
    finally:
        w.close()
    clean = [{k: v for k, v in s.items() if not k.startswith("_")} for s in steps]
    res = {"viol": None, "probes": w.probes, "stats": w.stats, "steps": w.nsteps,
           "faults": {k: v for k, v in w.stats.items() if k.startswith("fault_") or k.startswith("outside_")}}
    res["logd"] = digest([clean, [jsonable(r.model) for r in w.res], [jsonable(r.disk) for r in w.res], sorted(w.probes.items()), viol and viol["kind"]])
    sig = prop.signature(w, cfg, clean)
    if sig is not None:
        res["sig"] = digest(sig)
    if i % 997 == 0 or viol:
        res["sample"] = {"run_index": i, "cfg": cfg, "steps": jsonable(clean[:40])}
    if viol:
        viol.update(index=i, replay={"cfg": cfg, "steps": clean})
        res["viol"] = viol
    return res


def replay(prop, payload):
    W = getattr(prop, "WorldClass", World)
    v, w = seqsim.run_trace(payload["cfg"], [dict(s) for s in payload["steps"]], W)
    return v


def minimise(prop, payload, viol):
    kind = viol["kind"]
    cfg = payload["cfg"]
    W = getattr(prop, "WorldClass", World)

    def test(steps):
        try:
            v, _ = seqsim.run_trace(cfg, [dict(s) for s in steps], W)
        except Exception:
            return False
        return v is not None and v["kind"] == kind
    if not test(payload["steps"]):
        return payload
    # structural steps (resources / objects) are never removed: ids of everything else stay stable
    fixed = [s for s in payload["steps"] if s["t"] in ("new_res", "new_obj", "new_obj_data")]
    rest = [s for s in payload["steps"] if s["t"] not in ("new_res", "new_obj", "new_obj_data")]
    if [s for s in payload["steps"][:len(fixed)]] != fixed:
        return payload   # structural steps are not a prefix (restart-style traces): leave as is
    rest = ddmin(rest, lambda x: test(fixed + x))
    return {"cfg": cfg, "steps": fixed + rest}


def shape_sig(w, cfg, steps, extra=()):
    """Canonical shape of a run: family, and the sequence of (step type, op name, handle depth)."""
    seq = []
    for s in steps:
        if s["t"] == "op":
            h = w.handles[s["hid"]] if s.get("hid", 1 << 30) < len(w.handles) else None
            seq.append(("op", s["name"], len(h.path) if h else -1, h.oid if h else -1))
        elif s["t"] == "outside":
            seq.append(("outside", s["edit"][0]))
        else:
            seq.append((s["t"], s.get("ctx"), s.get("kind")))
    return [cfg.get("family"), list(extra), seq]
