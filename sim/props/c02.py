"""C02 - read-through: every read reflects the backend's current content; child handles stay attached."""
import sys
from . import _seq, _unbuf
from ..core import model as M

ID = "C02"
ENGINE = "seqsim"
LEVEL = "exploration"
RUNS = {"quick": 100000, "thorough": 400000}
CHUNK = 250
WorldClass = _unbuf.StaleWorld
RULE = ("seeded histories interleaving every read API (and mutators through attached handles) on 1-3 objects and "
        "their retained nested handles with OUTSIDE-WRITER rewrites of the resource (targeted edits chosen to hit "
        "each (old kind,new kind) merge branch: equal, nested update, dict<->list, container->scalar, container->null, "
        "scalar->container, shorter/longer list, key added/removed; or whole-document replacement of the same root "
        "kind). Oracle: each read equals the independent observer's view at call time (type-strict); writes through "
        "still-attached handles land at their path. Non-trivial = a read or write happened through a handle whose "
        "root was stale w.r.t. an outside/other-object write; distinct = (family, kind, step-shape) hashes.")
ASSUMPTIONS = ["excluded because the statement does not define them: resource deleted, root kind changed, content the "
               "class forbids, ==-equal scalars of different JSON type meeting in a merge",
               "handles whose guarantee ended are dropped, not checked (DESIGN §2.3)",
               "Redis/MongoDB/Zarr are in-process stubs"]
COMPONENTS = {"real": ["synced_collections (working tree)", "tmpfs file system"], "stub": ["redis", "mongo+bson", "zarr+numcodecs"]}
EXPECT_PROBES = {"quick": ["stale_handle_read", "outside_kind_change"], "thorough": ["stale_handle_read", "outside_kind_change"]}


class W2(WorldClass):
    def after_outside(self, r, new):
        from ..core.values import all_paths, get_path, has_path, kind_of
        old = r.model
        for p in all_paths(old):
            if has_path(new, p) and kind_of(get_path(old, p)) != kind_of(get_path(new, p)):
                self.probe("outside_kind_change")
                self.probe("merge_%s_to_%s" % (kind_of(get_path(old, p)), "null" if get_path(new, p) is None else kind_of(get_path(new, p))))
                break
        super().after_outside(r, new)


WorldClass = W2


def make_cfg(rs, tier):
    cfg = _unbuf.base_cfg(rs, ID)
    cfg["p_outside"] = rs.choice([0.2, 0.35, 0.5])
    cfg["p_mut"] = rs.choice([0.1, 0.3, 0.5])
    cfg["oracles"] = ["backend", "result", "children"]
    cfg["p_synced_operand"] = rs.choice([0.0, 0.1, 0.2])
    cfg["p_handle_store"] = rs.choice([0.0, 0.05, 0.1])
    cfg["p_fault"] = rs.choice([0.0, 0.0, 0.25])     # fault-free and fault-injecting configurations run separately
    cfg["p_wrongroot"] = rs.choice([0.0, 0.0, 0.04])
    return cfg


setup = _unbuf.setup


def gen_step(w, rg):
    cfg = w.cfg
    r0 = w.res[0]
    if getattr(r0, "wrongroot", False):
        from ..core.values import gen_value
        from ..engines import seqgen as G
        if rg.random() < 0.5:
            return {"t": "outside", "rid": 0, "edit": ["restore", gen_value(rg, w.fresh, 2, r0.kind, 3)]}
        roots = [h for h in w.handles if h is not None and not h.path and w.objs[h.oid].alive]
        return G.gen_op_step(rg, w, G.pick(rg, roots), depth=1, mut_weight=0.0) if roots else None
    if cfg.get("p_wrongroot") and r0.disk is not None and rg.random() < cfg["p_wrongroot"]:
        return {"t": "outside", "rid": 0, "edit": ["wrongroot"]}
    st = _unbuf.gen_step(w, rg)
    if (cfg.get("p_fault") and st and st.get("t") == "op" and "fault" not in st and not st.get("keep") and w.res[0].store == "file"
            and w.res[0].disk is not None and rg.random() < cfg["p_fault"]):
        h = w.handles[st["hid"]]
        if h is not None and not M.is_mutator(h.kind, st["name"]) and not any(isinstance(a, dict) and "$handle" in a for a in st.get("args", [])):
            # FAULT-INJECTING share: an I/O error (not ENOENT) at a seeded seam call of a READ, typically right after an
            # outside rewrite: the read may raise, it must never silently return the cached (stale) content
            st["fault"] = {"at": rg.randrange(0, 4), "exc": ["OSError", rg.choice(["EACCES", "EIO", "EMFILE", "EPERM", "ESTALE"])]}
    return st


def signature(w, cfg, steps):
    if not (w.probes.get("stale_handle_read") or w.probes.get("stale_handle_written")):
        return None
    return _seq.shape_sig(w, cfg, steps, (cfg["kind"],))


_me = sys.modules[__name__]
run_one = lambda seed, i, tier: _seq.run_one(_me, seed, i, tier)  # noqa
replay = lambda payload: _seq.replay(_me, payload)  # noqa
minimise = lambda payload, viol: _seq.minimise(_me, payload, viol)  # noqa
