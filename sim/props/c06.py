"""C06 - objects on one file share one buffered state; the flush keeps all their writes."""
import sys
from . import _seq, _buf
from ..core import lib
from ..core.values import gen_value
from ..engines import seqgen as G

ID = "C06"
ENGINE = "seqsim"
LEVEL = "exploration"
RUNS = {"quick": 80000, "thorough": 400000}
CHUNK = 250
RULE = ("seeded histories over k=2-3 objects bound to ONE file (plus 0-1 other file) under a COMMON buffered state only: "
        "one backend-wide context, or per-object contexts entered back-to-back and exited back-to-back in a generated "
        "order with no operation in between; generated: which object touches the buffer first, which only read, "
        "which write (all mutators incl. clear/reset/nested children), flush/exit order, both strategies, dict and "
        "list. Oracle: inside the state every read through any object equals ONE shared plain model; after the common "
        "exit the observer equals the model and a read through every object equals it. No implicit observation reads. "
        "Non-trivial = >=2 different objects used inside one common state with >=1 write; distinct = step-shape hashes.")
ASSUMPTIONS = ["mixed buffering states of objects on one file are excluded (the statement and the library's warning exclude them)",
               "no outside writer (C07)"]
COMPONENTS = {"real": ["synced_collections (working tree)", "tmpfs file system"], "stub": []}
EXPECT_PROBES = {"quick": ["flush_with_reader_first", "common_state_two_objects"],
                 "thorough": ["flush_with_reader_first", "common_state_two_objects"]}


def make_cfg(rs, tier):
    cfg = _buf.base_cfg(rs, ID, nres=rs.choice([1, 1, 2]), nobj=rs.choice([2, 2, 3]))
    cfg["capmode"] = "huge"
    cfg["forced_flush_possible"] = False
    cfg["oracles"] = ["backend", "result"]
    cfg["episodes"] = rs.choice([1, 2, 3])
    # open finding C06-F1 (shared-memory strategy: objects on one file stay entangled after the common state):
    # the generator avoids the listed pattern = mutating after the common state was left
    cfg["avoid_F1"] = cfg["strategy"] == "memory"
    if cfg["avoid_F1"]:
        cfg["episodes"] = 1
    return cfg


setup = _buf.setup


def run_gen(w, rg, emit):
    """Drive a whole run: emit(step) executes and records."""
    cfg = w.cfg

    def ops(n, p_mut, allowed_oids=None):
        used = set()
        wrote = set()
        for _ in range(n):
            hs = [h for h in G.attached_handles(w) if allowed_oids is None or h.oid in allowed_oids]
            if not hs:
                return used, wrote
            h = G.pick(rg, hs)
            if rg.random() < 0.15:
                st = G.gen_navigate_step(rg, w, h)
                if st:
                    emit(st)
                    used.add(h.oid)
                    continue
            st = G.gen_op_step(rg, w, h, depth=cfg["depth"], mut_weight=p_mut, slices=True)
            from ..core import model as M
            emit(st)
            used.add(h.oid)
            if M.is_mutator(h.kind, st["name"]):
                wrote.add(h.oid)
        return used, wrote
    for ep in range(cfg["episodes"]):
        ops(rg.randint(0, 3), 0.6)
        if any(not r.exists for r in w.res):
            # resources must exist before the common state (the absent-file convention "None = keep memory" makes
            # net-zero buffered episodes on a missing file unobservable; see DESIGN §7)
            for r in w.res:
                if not r.exists:
                    o = [x for x in w.objs if x.rid == r.rid and x.alive][0]
                    emit({"t": "op", "hid": o.root_hid, "name": "reset", "args": [[w.fresh.int()] if r.kind == "list" else {"init": w.fresh.int()}]})
        objs0 = [o.oid for o in w.objs if o.rid == 0 and o.alive]
        if rg.random() < 0.5:
            k = cfg["kinds"][0]
            emit({"t": "enter", "ctx": "backend", "family": cfg["family"], "kind": k})
            n_ctx = 1
            order = None
            members = [o.oid for o in w.objs if w.res[o.rid].kind == k and o.alive]
        else:
            oids = list(objs0)
            rg.shuffle(oids)
            emit({"t": "enter_group", "oids": oids})
            n_ctx = len(oids)
            order = list(range(n_ctx))
            rg.shuffle(order)
            members = oids
        # roles: some objects only read
        readers = set(o for o in objs0 if rg.random() < 0.4)
        first = []
        seen, wrote_any = set(), set()
        for _ in range(rg.randint(2, 8)):
            oid = G.pick(rg, members)
            hs = [h for h in G.attached_handles(w) if h.oid == oid]
            if not hs:
                continue
            h = G.pick(rg, hs)
            p_mut = 0.0 if oid in readers else 0.8
            st = G.gen_op_step(rg, w, h, depth=cfg["depth"], mut_weight=p_mut, slices=True, keep_p=0.15)
            from ..core import model as M
            emit(st)
            if oid not in seen:
                first.append(oid)
            seen.add(oid)
            if M.is_mutator(h.kind, st["name"]):
                wrote_any.add(oid)
        on0 = [o for o in seen if o in objs0]
        if len(on0) >= 2 and wrote_any:
            w.probe("common_state_two_objects")
        if any(o in objs0 and o not in wrote_any for o in seen) and any(o in objs0 for o in wrote_any):
            w.probe("flush_with_reader_first")
        if order is None and wrote_any and rg.random() < 0.2:
            # the writer objects go out of scope inside the backend-wide context (and the garbage collector runs): the
            # flush at the exit must still write what they wrote, whether or not another object on the file is alive
            for oid in sorted(wrote_any):
                emit({"t": "drop_gc", "oid": oid})
        st = {"t": "exit_group", "n": n_ctx}
        if order:
            st["order"] = order
        emit(st)
        # a read through every object after the common exit
        for o in w.objs:
            if o.alive:
                emit({"t": "op", "hid": o.root_hid, "name": "call", "args": []})


from ..engines.seqsim import World as _World


class W(_World):
    """Nested handles retained across a change of the common buffered state are not part of C06's statement
    (it speaks about collection objects bound to the file): they are dropped at every state transition."""

    def _drop_children(self):
        for h in self.handles:
            if h is not None and h.path and h.state == "attached":
                h.state = "dropped"

    def post_op(self, r, ob, h, name, mutated, buffered, pre, changed, lres):
        super().post_op(r, ob, h, name, mutated, buffered, pre, changed, lres)
        if mutated:
            # C06 speaks about collection OBJECTS: a nested handle obtained through one object is only used until
            # another object mutates the resource (the shared-memory strategy swaps whole trees by reference)
            for x in self.handles:
                if x is not None and x.path and x.oid != ob.oid and self.objs[x.oid].rid == ob.rid and x.state == "attached":
                    x.state = "dropped"

    def st_enter(self, st):
        self._drop_children()
        super().st_enter(st)

    def st_exit(self, st):
        super().st_exit(st)
        self._drop_children()


WorldClass = W


def run_one(seed, i, tier):
    from ..core.values import stream, digest, jsonable
    from ..engines.seqsim import Violation
    World = W
    rs = stream(seed, ID, i, "cfg")
    cfg = make_cfg(rs, tier)
    rg = stream(seed, ID, i, "gen")
    w = World(cfg)
    steps, viol = [], None

    def emit(st):
        steps.append(st)
        w.step(st)
    try:
        try:
            for st in setup(w, rg):
                emit(st)
            run_gen(w, rg, emit)
            w.finish()
        except Violation as e:
            viol = {"kind": e.kind, "msg": e.msg}
    finally:
        w.close()
    clean = [{k: v for k, v in s.items() if not k.startswith("_")} for s in steps]
    res = {"viol": None, "probes": w.probes, "stats": w.stats, "steps": w.nsteps, "faults": {}}
    if w.probes.get("common_state_two_objects"):
        res["sig"] = digest(_seq.shape_sig(w, cfg, clean, (cfg["strategy"],)))
    if i % 997 == 0 or viol:
        res["sample"] = {"run_index": i, "cfg": cfg, "steps": jsonable(clean[:40])}
    if viol:
        viol.update(index=i, replay={"cfg": cfg, "steps": clean})
        res["viol"] = viol
    return res


_me = sys.modules[__name__]
replay = lambda payload: _seq.replay(_me, payload)  # noqa
minimise = lambda payload, viol: _seq.minimise(_me, payload, viol)  # noqa
