"""Shared plumbing for the properties decided by threadsim (C09, C10-deadlock, C13, C14)."""
import time

from ..core import lib, seams, simlock
from ..core import model as M
from ..core.values import Fresh, deep, get_path, has_path, same, stream, digest, jsonable, plain, kind_of
from ..engines import threadsim as TS
from ..engines.seqsim import World, Violation, ABSENT


def init_content(kind, fresh):
    inner = {"p": fresh.int(), "q": {"r": fresh.int()}}
    lst = [fresh.int(), fresh.int(), {"z": fresh.int()}]
    if kind == "dict":
        return {"a": fresh.int(), "b": fresh.int(), "n": inner, "l": lst}
    return [fresh.int(), fresh.int(), inner, lst]


CHILD_PATHS = {"dict": [["n"], ["l"], ["n", "q"], ["l", 2]], "list": [[2], [3], [2, "q"], [3, 2]]}


def allowed(op_path, kind, name, args, used_paths):
    """Handle-safety: the op must not remove/reassign/shift a position that is a prefix of a used handle's path."""
    P = list(op_path)
    deeper = [u for u in used_paths if len(u) > len(P) and u[:len(P)] == P]
    if not deeper:
        return True
    if kind == "dict":
        if name in ("clear", "reset", "popitem", "update", "update_pairs", "update_kwargs"):
            return False
        if name in ("setitem", "delitem", "pop", "setdefault"):
            return all(u[len(P)] != args[0] for u in deeper)
        return True
    if name in ("append", "extend", "iadd"):
        return True
    if name in M.LIST_MUT:
        return False
    return True


def gen_rejected_op(rg, kind, attr_family):
    """An operation with forbidden input (C11 next to concurrency: validation must not be skipped under any interleaving)."""
    badkey = {"$keydict": [[987654, 1]]}
    if kind == "dict":
        ops = [("setitem", ["bad", {"$obj": "object"}]), ("update", [badkey]), ("setdefault", ["newbad", {"$obj": "set"}]), ("setitem", ["nb", badkey])]
        if attr_family:
            ops += [("setitem", ["dotted.key", 5]), ("update", [{"x.y": 1}]), ("setitem", ["nd", {"in.ner": 1}])]
    else:
        ops = [("append", [{"$obj": "object"}]), ("append", [badkey]), ("insert", [0, {"$obj": "complex"}]), ("extend", [[badkey]])]
        if attr_family:
            ops += [("append", [{"dotted.key": 1}])]
    return ops[rg.randrange(len(ops))]


def gen_thread_op(rg, fresh, kind, c, readers=False, mut_only=True, attr=False):
    """(name, args) for a concurrent program; c is the initial model value at the handle (for keys/indices)."""
    if kind == "dict":
        keys = sorted(c) + ["x", "y"]
        k = keys[rg.randrange(len(keys))]
        if readers:
            name = rg.choice(["getitem", "get", "len", "iter", "list", "call", "eq", "contains", "keys", "values", "items"] + (["getattr", "getattr"] if attr else []))
            if name == "getattr":
                return name, ([k] if rg.random() < 0.5 else [k, fresh.int()])
            if name in ("getitem", "get", "contains"):
                return name, [k]
            if name == "eq":
                return name, [deep(c)]
            return name, []
        name = rg.choice(["setitem", "setitem", "delitem", "pop", "popitem", "clear", "update", "setdefault", "reset", "update_kwargs"])
        if name == "setitem":
            return name, [k, rg.choice([fresh.int(), {"v": fresh.int()}, [fresh.int()]])]
        if name in ("delitem", "pop"):
            return name, [k]
        if name == "setdefault":
            return name, [k, fresh.int()]
        if name == "update":
            return name, [{k: fresh.int(), "u": fresh.int()}]
        if name == "update_kwargs":
            return name, [None, {"kw": fresh.int()}]
        if name == "reset":
            return name, [{"r": fresh.int(), k: fresh.int()}]
        return name, []
    n = len(c)
    if readers:
        name = rg.choice(["getitem", "len", "iter", "list", "call", "eq", "contains", "reversed", "count", "index"])
        if name == "getitem":
            return name, [rg.randrange(-n, n) if n else 0]
        if name == "eq":
            return name, [deep(c)]
        if name in ("contains", "count", "index"):
            return name, [deep(c[rg.randrange(n)]) if n else 1]
        return name, []
    name = rg.choice(["append", "append", "extend", "insert", "pop", "reverse", "remove", "setitem", "delitem", "clear", "reset", "iadd"])
    if name == "append":
        return name, [rg.choice([fresh.int(), {"v": fresh.int()}])]
    if name in ("extend", "iadd"):
        return name, [[fresh.int(), fresh.int()]]
    if name == "insert":
        return name, [rg.randint(0, n), fresh.int()]
    if name == "pop":
        return name, ([] if rg.random() < 0.6 else [rg.randrange(-n, n) if n else 0])
    if name == "remove":
        scal = [x for x in c if not isinstance(x, (dict, list))]
        return name, [scal[rg.randrange(len(scal))] if scal else 12345]
    if name == "setitem":
        return name, [rg.randrange(-n, n) if n else 0, fresh.int()]
    if name == "delitem":
        return name, [rg.randrange(-n, n) if n else 0]
    if name == "reset":
        return name, [[fresh.int(), fresh.int()]]
    return name, []


class ThreadWorld(World):
    pass


def execute(cfg, threads_prog, strat_spec, sched_seed, pre_steps, ctx_spec=None, step_cap=200000, in_ctx_ops=None):
    """Run one threaded scenario. Returns dict(history, final, sched info, errors)."""
    ns = lib.load()
    w = ThreadWorld(cfg)
    out = {}
    try:
        for st in pre_steps:
            w.step(dict(st))
        # optional buffered contexts entered by the main thread around the concurrent phase
        cms = []
        if ctx_spec:
            for c in ctx_spec:
                if c["kind"] == "backend":
                    cls = w.cls_of(c["family"], c["rkind"])
                    cm = cls.buffer_backend(c["cap"]) if c.get("cap") is not None else cls.buffer_backend()
                else:
                    cm = w.objs[c["oid"]].o.buffered
                cm.__enter__()
                cms.append(cm)
        # operations executed by the main thread INSIDE the context before the threads start (buffer already holds
        # modified entries when the concurrent phase begins); they are part of the initial state of the history
        for op in (in_ctx_ops or []):
            h = w.handles[op["h"]]
            r = w.res[w.objs[h.oid].rid]
            res = M.lib_apply(h.node, op["name"], M.dec(op["args"], None))
            if isinstance(res, M.Raised) and isinstance(res.exc, (w.ns.errors.BufferException,)):
                out.setdefault("exit_errors", []).append(f"main-thread op inside the context raised {res!r}")
            M.model_apply(get_path(r.model, h.path), op["name"], M.dec(op["args"], None))
        lib.lock_labels()
        rng = stream(sched_seed, "sched")
        strat = TS.make_strategy(strat_spec, rng, len(threads_prog))
        # (bytecode-level tracing executes roughly ten times as many pre-emption points per library line)
        sched = TS.Sched(strat, ns.libdir + "/", step_cap=step_cap * (12 if cfg.get("opcode") else 1), opcode=bool(cfg.get("opcode")))
        history = []
        SC = ns.SyncedCollection

        handle_nodes = [x.node if x is not None else None for x in w.handles]

        def make_program(ti, ops):
            def program(t):
                for oi, op in enumerate(ops):
                    h = w.handles[op["h"]]
                    args = M.dec(op["args"], handle_nodes)   # {"$handle": i} = the live synced node of handle i
                    rec = {"t": ti, "i": oi, "h": op["h"], "name": op["name"], "args": op["args"], "inv": sched.step}
                    if op.get("rejected"):
                        rec["rejected"] = True
                    sched.in_op[t.tid] = True
                    sched.ev[t.tid] = []
                    if op.get("wrap") == "backend":
                        # the thread enters (and leaves) its own nested backend-wide context around the operation
                        try:
                            with w.objs[h.oid].cls.buffer_backend():
                                res = M._lib_apply(h.node, op["name"], args, False)
                        except Exception as e:  # noqa
                            res = M.Raised(e)
                    else:
                        res = M.lib_apply(h.node, op["name"], args)
                    sched.in_op[t.tid] = False
                    rec["ret"] = sched.step
                    if isinstance(res, M.Raised):
                        rec["exc"] = res.cls.__name__
                        rec["exc_obj"] = res
                    else:
                        rec["res"] = M.result_plain(op["name"], res, SC)
                    history.append(rec)
                    held = simlock.held_by(t.tid)
                    if held:
                        rec["leaked"] = [repr(l) for l in held]
            return program
        seams.S.lib_active = True
        seams.S.on_hit = sched.note
        sched.run([make_program(i, ops) for i, ops in enumerate(threads_prog)])
        seams.S.lib_active = False
        seams.S.on_hit = None
        out["abort"] = sched.abort
        out["deadlock"] = sched.deadlock
        out["errors"] = [repr(t.error) for t in sched.threads if t.error is not None]
        out["steps"] = sched.step
        out["switches"] = len(sched.switches)
        out["switch_sites"] = [list(map(str, s[3][:2])) if s[3] else None for s in sched.switches][:50]
        out["switch_funcs"] = [(s[1], s[3][2] if s[3] and len(s[3]) > 2 else None) for s in sched.switches][:50]
        out["switch_phases"] = [s[4] for s in sched.switches][:50]
        out["points"] = {t.tid: t.points for t in sched.threads}
        out["choices"] = sched.choices
        out["contended"] = sched.contended
        out["preempt_in_op"] = sched.preempt_in_op
        out["history"] = history
        out["held_after"] = [repr(l) for l, o, c in simlock.held()]
        # leave the contexts (innermost first)
        out["exit_errors"] = out.get("exit_errors", [])
        out["final"] = [None for _ in w.res]
        out["bufsize"] = {}
        if not sched.abort:
            for cm in reversed(cms):
                try:
                    cm.__exit__(None, None, None)
                except Exception as e:  # noqa
                    out["exit_errors"].append(f"{type(e).__name__}: {e}")
                except simlock.WouldBlock as e:
                    # the main thread cannot leave the context: a finished thread still owns a lock
                    if not out["held_after"]:
                        out["held_after"] = [repr(e.lock)]
            out["final"] = [w.observe(r) for r in w.res]
            out["final"] = [None if f is ABSENT else f for f in out["final"]]
            out["bufsize"] = {c.__name__: c.get_current_buffer_size() for c in {o.cls for o in w.objs} if hasattr(c, "get_current_buffer_size")}
        out["handles"] = [(w.objs[h.oid].rid, h.path, h.kind) for h in w.handles]
        out["init"] = [deep(r.model) for r in w.res]
        return out
    finally:
        simlock.SCHED[0] = None
        simlock.CUR[0] = "main"
        w.close()


def check_linearizable(out, per_file=False):
    """Returns None if the recorded history (+ final contents) is linearizable w.r.t. the reference model."""
    handles = out["handles"]
    ops = []
    for rec in out["history"]:
        ops.append(rec)

    def apply_fn(state, op):
        s = deep(state)
        rid, path, kind = handles[op["h"]]
        if not has_path(s[rid], path):
            return False, s
        target = get_path(s[rid], path)
        if kind_of(target) != kind:
            return False, s
        class _Operands:      # {"$handle": i} operand = the model's value of handle i AT THIS POINT of the linearisation
            def __getitem__(self, i):
                r2, p2, k2 = handles[i]
                if not has_path(s[r2], p2):
                    raise LookupError(i)
                return deep(get_path(s[r2], p2))
        try:
            margs = M.dec(op["args"], _Operands())
        except LookupError:
            return False, s
        name = op["name"]
        if op.get("rejected"):
            # forbidden input: must be rejected with TypeError/ValueError at any point, changing nothing
            return ("exc" in op and isinstance(op["exc_obj"].exc, (TypeError, ValueError))), s
        if name == "popitem" and kind == "dict" and "res" in op:
            r = op["res"]
            if not (isinstance(r, list) and len(r) == 2 and r[0] in target and same(target[r[0]], r[1])):
                return False, s
            del target[r[0]]
            return True, s
        mres = M.model_apply(target, name, margs)
        lres = op["exc_obj"] if "exc" in op else op.get("res")
        return M.results_agree(name, kind, lres, mres) is None, s

    def final_check(state):
        for rid, f in enumerate(out["final"]):
            exp = state[rid]
            if f is None:
                if exp not in ({}, []):
                    return False
            elif not same(f, exp):
                return False
        return True
    order = TS.linearizable(ops, out["init"], apply_fn, final_check)
    return order


def describe_history(out):
    lines = []
    for rec in sorted(out["history"], key=lambda r: r["inv"]):
        r = rec.get("exc", None)
        lines.append(f"T{rec['t']} h{rec['h']} {rec['name']}{jsonable(rec['args'])} [{rec['inv']},{rec['ret']}] -> "
                     + (f"raised {r}" if r else repr(jsonable(rec.get('res')))))
    return "; ".join(lines)


def witness_replay(run_payload, payload, timeout, budget=800):
    """Replay the witness of an open finding.  The stored schedule is tried first; a schedule is tied to the exact
    code shape (a forced choice list counts library lines), so after a harmless change of the library it may no longer
    hit the window.  Then a bounded, deterministic search over schedules of THE SAME programs decides whether the
    finding is still there: single pre-emptions at every k (each thread first), then seeded random/PCT schedules."""
    from ..core.runner import run_isolated
    out, v = run_isolated(run_payload, (payload,), timeout=timeout)
    if v or not payload.get("witness_search"):
        return v
    want = payload.get("witness_kind")
    nthreads = len(payload["progs"])
    names = [f"T{x}" for x in range(nthreads)]
    tried = 0
    pts = out.get("points", {}) if isinstance(out, dict) else {}
    for first in names:
        order = [first] + [n for n in names if n != first]
        for k in range(0, min(pts.get(first, 400), 1500) + 2):
            p = dict(payload, strat={"kind": "single", "first": first, "k": k, "order": order})
            out2, v2 = run_isolated(run_payload, (p,), timeout=timeout)
            tried += 1
            if v2 and (want is None or v2["kind"] == want):
                return v2
            if tried >= budget:
                return None
    i = 0
    while tried < budget:
        rs = stream("witness", payload.get("sched_seed"), i)
        r = rs.random()
        strat = {"kind": "random", "p": rs.choice([0.02, 0.1, 0.3])} if r < 0.6 else {"kind": "pct", "d": rs.choice([1, 2, 3]), "est": rs.choice([150, 400, 800])}
        p = dict(payload, strat=strat, sched_seed=f"witness/{i}")
        out2, v2 = run_isolated(run_payload, (p,), timeout=timeout)
        tried += 1
        i += 1
        if v2 and (want is None or v2["kind"] == want):
            return v2
    return None
