"""Self-tests: ./check selftest-determinism [N]  |  ./check selftest-mutants"""
import json
import os
import subprocess
import sys
import multiprocessing as mp
from concurrent.futures import ProcessPoolExecutor

VERIF = os.path.dirname(os.path.dirname(os.path.dirname(os.path.abspath(__file__))))
PROPS = ["C01", "C02", "C03", "C04", "C05", "C06", "C07", "C08", "C09", "C10", "C11", "C12", "C13", "C14", "C15", "C16", "C17", "C18", "C19"]


def _digests(pid, seed, indices):
    from sim.core import runner, lib
    prop = runner._load_prop(pid)
    lib.load(with_numpy=getattr(prop, "WITH_NUMPY", False))
    out = {}
    for i in indices:
        if getattr(prop, "ISOLATE", False):
            r = runner.run_isolated(prop.run_one, (seed, i, "quick"), timeout=120)
        else:
            r = prop.run_one(seed, i, "quick")
        out[i] = r.get("logd") or json.dumps([r.get("sig"), r.get("steps"), sorted(r.get("probes", {}).items())], default=repr)
    return out


def determinism(n):
    bad = 0
    ctx = mp.get_context("fork")
    for pid in ([p for p in PROPS if p in os.environ.get("VERIF_ONLY", "").split(",")] or PROPS):
        idx = list(range(n))
        # A: 16 workers, chunks of 10
        a = {}
        with ProcessPoolExecutor(max_workers=16, mp_context=ctx) as ex:
            for f in [ex.submit(_digests, pid, 0, idx[k:k + 10]) for k in range(0, n, 10)]:
                a.update(f.result())
        # B: one worker, reversed order (different batch positions / process state)
        with ProcessPoolExecutor(max_workers=1, mp_context=ctx) as ex:
            b = ex.submit(_digests, pid, 0, idx[::-1]).result()
        # C: a brand-new interpreter under another hash seed
        code = ("import sys, json; sys.path.insert(0, %r); from sim.selftest import run; "
                "print('DIGESTS ' + json.dumps(run._digests(%r, 0, list(range(%d)))))" % (VERIF, pid, min(n, 60)))
        p = subprocess.run([sys.executable, "-c", code], capture_output=True, text=True, env=dict(os.environ, PYTHONHASHSEED="1"), cwd=VERIF, timeout=1800)
        c = {}
        for line in p.stdout.splitlines():
            if line.startswith("DIGESTS "):
                c = {int(k): v for k, v in json.loads(line[8:]).items()}
        if not c:
            print(f"[selftest] {pid}: fresh-interpreter run failed:\n{p.stderr[-1500:]}")
            bad += 1
            continue
        d_ab = [i for i in idx if a[i] != b[i]]
        d_ac = [i for i in c if a[i] != c[i]]
        print(f"[selftest] {pid}: {n} seeds x (16 workers | 1 worker reversed | fresh interpreter PYTHONHASHSEED=1 x{len(c)}): "
              f"{'IDENTICAL' if not d_ab and not d_ac else 'DIFFER at ' + str((d_ab[:5], d_ac[:5]))}", flush=True)
        bad += bool(d_ab or d_ac)
    return 1 if bad else 0


def main(argv):
    if argv[0] == "selftest-determinism":
        return determinism(int(argv[1]) if len(argv) > 1 and argv[1].isdigit() else 200)
    if argv[0] == "selftest-mutants":
        from sim.selftest import mutants
        return mutants.main(argv[1:])
    print("unknown selftest")
    return 2
