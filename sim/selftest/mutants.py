"""Sensitivity self-test: every kept seeded change (seeded/<id>/) must be reported by the checks listed in its meta.json
within the QUICK budget, when applied to a scratch copy of /repo/synced_collections."""
import glob
import json
import os
import shutil
import subprocess
import sys
import tempfile

VERIF = os.path.dirname(os.path.dirname(os.path.dirname(os.path.abspath(__file__))))


def run_on(patch, pid, tier="quick"):
    d = tempfile.mkdtemp(prefix="mut-", dir="/dev/shm")
    try:
        shutil.copytree("/repo/synced_collections", os.path.join(d, "synced_collections"), ignore=shutil.ignore_patterns("__pycache__"))
        p = subprocess.run(["patch", "-p1", "--no-backup-if-mismatch", "-s", "-i", patch], cwd=d, capture_output=True, text=True)
        if p.returncode != 0:
            return "patch-failed", p.stdout + p.stderr
        env = dict(os.environ, VERIF_REPO=d, VERIF_NO_EVIDENCE="1")
        r = subprocess.run([os.path.join(VERIF, "check"), pid, tier], cwd=VERIF, capture_output=True, text=True, env=env, timeout=3600)
        viol = [l for l in r.stdout.splitlines() if l.startswith("VIOLATION")]
        return ("detected" if r.returncode == 1 and viol else f"missed(exit {r.returncode})"), r.stdout[-600:]
    finally:
        shutil.rmtree(d, ignore_errors=True)


def main(argv):
    only = set(argv)
    bad = 0
    for meta in sorted(glob.glob(os.path.join(VERIF, "seeded", "*", "meta.json"))):
        m = json.load(open(meta))
        if only and m["id"] not in only:
            continue
        patch = os.path.join(os.path.dirname(meta), "patch.diff")
        for pid in m["detected_by"][:1]:
            res, out = run_on(patch, pid)
            print(f"[selftest-mutants] {m['id']} vs {pid}: {res}", flush=True)
            if res != "detected":
                bad += 1
                print(out)
    return 1 if bad else 0
