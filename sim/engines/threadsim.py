"""Engine B - threadsim: baton-scheduled real threads.

Caller threads are real threading.Threads but exactly one holds the baton.  Every `line` event in a frame of the
library and every simulated-lock operation is a pre-emption point at which the seeded scheduler may hand the baton
to another runnable thread.  Every simulated schedule is one CPython could produce.
"""
import sys
import threading

from ..core import simlock


class SimAbort(BaseException):
    pass


class T:
    def __init__(self, tid, program):
        self.tid = tid
        self.program = program
        self.sem = threading.Semaphore(0)
        self.state = "ready"        # ready | blocked | done
        self.blocked_on = None
        self.thread = None
        self.error = None
        self.points = 0             # yield points executed


class Sched:
    def __init__(self, strategy, libdir, step_cap=200000, opcode=False):
        self.strategy = strategy
        self.libdir = libdir
        self.threads = []
        self.cur = None
        self.step = 0
        self.abort = None            # None | 'deadlock' | 'step_cap' | 'error'
        self.deadlock = None         # description of the wait-for cycle
        self.main_sem = threading.Semaphore(0)
        self.switches = []           # [(step, from_tid, to_tid, where)]
        self.choices = []            # tid chosen at every decision point (>=2 runnable)
        self.step_cap = step_cap
        self.where = None
        self.opcode = opcode
        self.contended = 0
        self.in_op = {}              # tid -> True while inside a library operation (for probes)
        self.preempt_in_op = 0
        self.ev = {}                 # tid -> seam events of the thread's current operation (semantic phase, see phase())

    # -- tracing --------------------------------------------------------------------------------------
    def _global_trace(self, frame, event, arg):
        if event == "call" and frame.f_code.co_filename.startswith(self.libdir):
            if self.opcode:
                frame.f_trace_opcodes = True
            return self._local_trace
        return None

    def _local_trace(self, frame, event, arg):
        if event == "line" or event == "opcode":
            self.where = (frame.f_code.co_filename[len(self.libdir):], frame.f_lineno, frame.f_code.co_qualname)
            self.yield_point()
        return self._local_trace

    # -- core ------------------------------------------------------------------------------------------
    def runnable(self):
        return [t for t in self.threads if t.state == "ready"]

    def yield_point(self):
        me = self.cur
        if self.abort:
            raise SimAbort()
        self.step += 1
        me.points += 1
        if self.step > self.step_cap:
            self._abort("step_cap")
            raise SimAbort()
        rn = self.runnable()
        if len(rn) <= 1:
            return
        nxt = self.strategy.decide(self, rn, me)
        self.choices.append(nxt.tid)
        if nxt is not me:
            if self.in_op.get(me.tid):
                self.preempt_in_op += 1
            self._switch(me, nxt)

    def note(self, kind):
        """Seam callback: remember what the running thread's current operation has done at the I/O seams so far."""
        me = self.cur
        if me is not None and kind in ("open", "read", "write", "replace", "rename", "stat", "remove"):
            self.ev.setdefault(me.tid, []).append("mv" if kind in ("replace", "rename") else kind)

    def phase(self, me):
        """Code-shape independent description of where thread `me` is inside its current operation: the file-system calls
        it has made so far (open/read/write/mv/stat/remove) and the kinds of library locks it holds (F = a per-file lock,
        B = a class-wide buffer lock, N = a lock created during the run).  Unlike a function name or line number this
        survives refactorings (extract method, renames, added logging, line shifts, moving the JSON decoding)."""
        def cat(l):
            lab = l.label or ""
            return "F" if ".file[" in lab else "B" if "_BUFFER_LOCK" in lab else "" if "_cls_lock" in lab else "N"
        held = "".join(sorted({cat(l) for l in simlock.held_by(me.tid)}))
        return ">".join(self.ev.get(me.tid, [])) + "|" + held

    def _switch(self, me, nxt):
        self.switches.append((self.step, me.tid, nxt.tid, self.where, self.phase(me)))
        self.cur = nxt
        simlock.CUR[0] = nxt.tid
        nxt.sem.release()
        me.sem.acquire()
        # resumed: whoever released us already set cur / CUR
        if self.abort:
            raise SimAbort()

    def lock_acquire(self, lock, blocking=True):
        me = self.cur
        if self.abort:
            raise SimAbort()
        if me is None:
            # main thread while a scheduler is installed but no thread runs (setup/teardown)
            if lock.owner in (None, "main"):
                lock.owner = "main"
                lock.count += 1
                return True
            raise simlock.WouldBlock(lock)
        f = sys._getframe(1)
        while f is not None and not f.f_code.co_filename.startswith(self.libdir):
            f = f.f_back
        self.where = ("lock.acquire", lock.lid, (f.f_code.co_qualname if f is not None else "?") + ":lock")
        self.yield_point()
        while lock.owner is not None and lock.owner != me.tid:
            if not blocking:
                return False
            self.contended += 1
            me.state = "blocked"
            me.blocked_on = lock
            rn = self.runnable()
            if not rn:
                self._declare_deadlock()
                me.state = "ready"
                raise SimAbort()
            nxt = self.strategy.decide(self, rn, None)
            self.choices.append(nxt.tid)
            self._switch(me, nxt)
        me.state = "ready"
        me.blocked_on = None
        lock.owner = me.tid
        lock.count += 1
        return True

    def lock_released(self, lock):
        for t in self.threads:
            if t.state == "blocked" and t.blocked_on is lock:
                t.state = "ready"

    def _declare_deadlock(self):
        cyc = []
        for t in self.threads:
            if t.state == "blocked":
                l = t.blocked_on
                cyc.append(f"{t.tid} waits for lock#{l.lid}({l.label or '?'}) held by {l.owner}")
        self.deadlock = "; ".join(cyc)
        self._abort("deadlock")

    def _abort(self, why):
        if not self.abort:
            self.abort = why

    def _thread_main(self, t):
        t.sem.acquire()
        try:
            if not self.abort:
                sys.settrace(self._global_trace)
                try:
                    t.program(t)
                finally:
                    sys.settrace(None)
        except SimAbort:
            pass
        except BaseException as e:  # noqa
            t.error = e
            self._abort("error")
        finally:
            t.state = "done"
            self._finished(t)

    def _finished(self, t):
        # hand the baton on
        if self.abort:
            rest = [x for x in self.threads if x.state != "done"]
            if rest:
                nxt = rest[0]
                self.cur = nxt
                simlock.CUR[0] = nxt.tid
                nxt.sem.release()
                return
            self.cur = None
            simlock.CUR[0] = "main"
            self.main_sem.release()
            return
        rn = self.runnable()
        if rn:
            nxt = self.strategy.decide(self, rn, None)
            self.choices.append(nxt.tid)
            self.cur = nxt
            simlock.CUR[0] = nxt.tid
            nxt.sem.release()
            return
        if all(x.state == "done" for x in self.threads):
            self.cur = None
            simlock.CUR[0] = "main"
            self.main_sem.release()
            return
        # threads remain but all are blocked: deadlock
        self._declare_deadlock()
        rest = [x for x in self.threads if x.state != "done"]
        nxt = rest[0]
        self.cur = nxt
        simlock.CUR[0] = nxt.tid
        nxt.sem.release()

    def run(self, programs, wall_timeout=30):
        """programs: list of callables(T). Returns when all threads are done (or aborted)."""
        self.threads = [T(f"T{i}", p) for i, p in enumerate(programs)]
        for t in self.threads:
            t.thread = threading.Thread(target=self._thread_main, args=(t,), daemon=True)
            t.thread.start()
        simlock.SCHED[0] = self
        first = self.strategy.decide(self, self.runnable(), None)
        self.choices.append(first.tid)
        self.cur = first
        simlock.CUR[0] = first.tid
        first.sem.release()
        ok = self.main_sem.acquire(timeout=wall_timeout)
        simlock.SCHED[0] = None
        simlock.CUR[0] = "main"
        if not ok:
            raise RuntimeError("threadsim: wall-clock timeout waiting for simulated threads (harness error)")
        for t in self.threads:
            t.thread.join(timeout=5)
        return self


# ---------------------------------------------------------------------------------------------------------
# strategies

class RandomStrategy:
    name = "random"

    def __init__(self, rng, p):
        self.rng, self.p = rng, p

    def decide(self, s, rn, me):
        if me is None or me not in rn:
            return rn[self.rng.randrange(len(rn))]
        if self.rng.random() < self.p:
            others = [t for t in rn if t is not me]
            return others[self.rng.randrange(len(others))]
        return me


class PCTStrategy:
    """Priority-based: highest priority runnable runs; at d random change points the running thread's priority drops."""
    name = "pct"

    def __init__(self, rng, nthreads, d, est_len):
        self.rng = rng
        self.prio = {}
        order = list(range(nthreads))
        rng.shuffle(order)
        for i, k in enumerate(order):
            self.prio[f"T{k}"] = nthreads + d - i
        self.change = sorted(rng.randrange(1, max(2, est_len)) for _ in range(d))
        self.low = d

    def decide(self, s, rn, me):
        while self.change and s.step >= self.change[0]:
            self.change.pop(0)
            if me is not None:
                self.low -= 1
                self.prio[me.tid] = self.low
        return max(rn, key=lambda t: self.prio.get(t.tid, 0))


class SinglePreemption:
    """Run thread `first` for k yield points, then run the others to completion (in order), then resume."""
    name = "single"

    def __init__(self, first, k, order):
        self.first, self.k, self.order = first, k, order
        self.done = False

    def decide(self, s, rn, me):
        ids = {t.tid: t for t in rn}
        if not self.done:
            ft = ids.get(self.first)
            if ft is not None and ft.points < self.k:
                return ft
            self.done = True
        for tid in self.order:
            if tid != self.first and tid in ids:
                return ids[tid]
        if me is not None and me in rn:
            return me
        return rn[0]


class ForcedStrategy:
    """Replay: the recorded choice at every decision point."""
    name = "forced"

    def __init__(self, choices):
        self.choices = list(choices)
        self.i = 0
        self.diverged = False

    def decide(self, s, rn, me):
        ids = {t.tid: t for t in rn}
        if self.i < len(self.choices):
            c = self.choices[self.i]
            self.i += 1
            if c in ids:
                return ids[c]
            self.diverged = True
        else:
            self.diverged = True
        if me is not None and me in rn:
            return me
        return rn[0]


def make_strategy(spec, rng, nthreads):
    k = spec["kind"]
    if k == "random":
        return RandomStrategy(rng, spec["p"])
    if k == "pct":
        return PCTStrategy(rng, nthreads, spec["d"], spec["est"])
    if k == "single":
        return SinglePreemption(spec["first"], spec["k"], spec["order"])
    if k == "forced":
        return ForcedStrategy(spec["choices"])
    raise ValueError(k)


# ---------------------------------------------------------------------------------------------------------
# linearizability

def linearizable(ops, init_state, apply_fn, final_check, max_nodes=200000):
    """ops: list of dict(inv, ret, ...). apply_fn(state, op) -> (ok, new_state) where ok says the recorded result
    is what the model produces at this point. final_check(state) -> bool. States must be hashable via repr."""
    n = len(ops)
    order_pred = [[j for j in range(n) if ops[j]["ret"] < ops[i]["inv"]] for i in range(n)]
    seen = set()
    nodes = [0]
    import json

    def key(done, state):
        return (done, json.dumps(state, sort_keys=True, default=repr))

    def dfs(done, state, seq):
        nodes[0] += 1
        if nodes[0] > max_nodes:
            return None
        if done == (1 << n) - 1:
            return seq if final_check(state) else None
        k = key(done, state)
        if k in seen:
            return None
        seen.add(k)
        for i in range(n):
            if done & (1 << i):
                continue
            if any(not (done & (1 << j)) for j in order_pred[i]):
                continue
            ok, ns = apply_fn(state, ops[i])
            if ok:
                r = dfs(done | (1 << i), ns, seq + [i])
                if r is not None:
                    return r
        return None
    return dfs(0, init_state, [])
