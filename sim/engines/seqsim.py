"""Engine A - seqsim: single-caller operation / fault traces against the executable reference model.

A trace is a list of JSON steps; `World.step(st)` executes one step on the real library and on the model and
evaluates the oracles enabled in the configuration.  Steps that cannot apply in the current state (their handle or
object vanished because an earlier step was removed by the minimiser) are skipped, so every sub-sequence of a
trace is itself a valid trace.
"""
import os
import shutil
import tempfile

from ..core import lib, seams, simlock
from ..core import model as M
from ..core.values import (Fresh, deep, get_path, has_path, is_plain_json, kind_of, plain, same, container_paths,
                           contains_synced, jsonable)
from ..stubs import stores

ABSENT = ("<absent>",)


class Violation(Exception):
    def __init__(self, kind, msg, **extra):
        super().__init__(f"{kind}: {msg}")
        self.kind = kind
        self.msg = msg
        self.extra = extra


class Skip(Exception):
    """Step not applicable in the current state."""


class Res:
    def __init__(self, rid, family, kind, store, ident, store_obj):
        self.rid, self.family, self.kind, self.store, self.ident, self.store_obj = rid, family, kind, store, ident, store_obj
        self.model = {} if kind == "dict" else []   # logical content
        self.exists = False                          # has the resource been created (by a mutator / outside)?
        self.disk = None                             # expected backend content (None = absent)
        self.bufstate = None                         # C05/C07 bookkeeping (dict) while the file is buffered
        self.frozen = None                           # file signature that must not change (buffered, huge capacity)


class Obj:
    def __init__(self, oid, rid, o, cls, wc):
        self.oid, self.rid, self.o, self.cls, self.wc = oid, rid, o, cls, wc
        self.depth = 0        # nesting of obj.buffered
        self.alive = True
        self.touched = False  # touched the buffer in the current buffered episode


class Handle:
    def __init__(self, hid, oid, path, node, kind):
        self.hid, self.oid, self.path, self.node, self.kind = hid, oid, list(path), node, kind
        self.state = "attached"


def _same_size_change(doc):
    """Change one scalar of doc so that the JSON text keeps its length (int 23 -> 24, 's7' -> 't7'); None if impossible."""
    def walk(v):
        if isinstance(v, dict):
            for k in v:
                r = walk(v[k])
                if r is not None:
                    v[k] = r[0]
                    return (v,)
            return None
        if isinstance(v, list):
            for i in range(len(v)):
                r = walk(v[i])
                if r is not None:
                    v[i] = r[0]
                    return (v,)
            return None
        if isinstance(v, bool) or v is None:
            return None
        if isinstance(v, int) and v % 10 not in (9,) and v >= 0:
            return (v + 1,)
        if isinstance(v, str) and v and v[0] in "abcdefghijklmnopqrstuvwxy":
            return (chr(ord(v[0]) + 1) + v[1:],)
        return None
    r = walk(doc)
    return doc if r is not None else None


class _ModelOperands:
    """Resolves {"$handle": i} operands to the model's plain value of that handle (for the model side)."""

    def __init__(self, w):
        self.w = w

    def __getitem__(self, i):
        hh = self.w.handles[i] if i < len(self.w.handles) else None
        if hh is None:
            raise Skip()
        rr = self.w.res[self.w.objs[hh.oid].rid]
        return deep(get_path(rr.model, hh.path)) if has_path(rr.model, hh.path) else None


RUN_DIRS = []


def make_run_dir():
    fixed = os.environ.get("VERIF_FIXED_DIR")
    if fixed:
        os.makedirs(fixed, exist_ok=True)
        return fixed
    base = "/dev/shm" if os.path.isdir("/dev/shm") and os.access("/dev/shm", os.W_OK) else tempfile.gettempdir()
    d = tempfile.mkdtemp(prefix=f"verif-{os.getpid()}-", dir=base)
    RUN_DIRS.append(d)
    return d


class World:
    def __init__(self, cfg):
        self.ns = lib.load()
        self.cfg = cfg
        self.oracles = set(cfg.get("oracles", ()))
        lib.world_reset()
        self.seams = seams.reset()
        self.dir = make_run_dir()
        self.seams.set_root(self.dir)
        self.seams.seed_uuid(cfg.get("uuid_seed", 0))
        self.res, self.objs, self.handles = [], [], []
        self.fresh = Fresh()
        self.clock_ns = 1_700_000_000_000_000_000
        self.ctx = []                 # stack of entered contexts: dict(kind='obj'|'backend', ...)
        self.backend_depth = {}       # class -> depth
        self.cap_stack = {}           # class -> list of capacities to restore
        self.SC = self.ns.SyncedCollection
        self.stats = {}
        self.probes = {}
        self.redis = stores.StubRedis()
        self.mongo = stores.StubMongoCollection()
        self.zarr = stores.StubZarrGroup()
        self.nsteps = 0
        self.userrefs = []            # C16: user-held containers: dict(obj=<python obj>, ...)
        self.order_taint = set()      # rids whose dict key order is unspecified (a bulk update/reset happened, C03)
        thr = cfg.get("threading")
        if thr is not None:
            for fam in self.ns.json_families:
                for k in ("d", "l"):
                    c = self.ns.families[fam][k]
                    (c.enable_multithreading if thr else c.disable_multithreading)()

    # ------------------------------------------------------------------------------------------
    def close(self):
        self.seams.lib_active = False
        self.seams.set_root(None)
        shutil.rmtree(self.dir, ignore_errors=True)
        if self.dir in RUN_DIRS:
            RUN_DIRS.remove(self.dir)

    def probe(self, name, n=1):
        self.probes[name] = self.probes.get(name, 0) + n

    def stat(self, name, n=1):
        self.stats[name] = self.stats.get(name, 0) + n

    # -- resources & objects ---------------------------------------------------------------------
    def cls_of(self, family, kind):
        f = self.ns.families[family]
        return f["d"] if kind == "dict" else f["l"]

    def add_resource(self, family, kind):
        f = self.ns.families[family]
        rid = len(self.res)
        if f["store"] == "file":
            ident, so = os.path.join(self.dir, f"r{rid}{'x' * int(self.cfg.get('name_pad', 0))}.json"), None
        elif f["store"] == "redis":
            ident, so = f"key{rid}", self.redis
        elif f["store"] == "mongo":
            ident, so = {"uid": f"doc{rid}"}, self.mongo
        else:
            ident, so = f"arr{rid}", self.zarr
        r = Res(rid, family, kind, f["store"], ident, so)
        self.res.append(r)
        return r

    def construct(self, r, wc=False, data=None):
        cls = self.cls_of(r.family, r.kind)
        kw = {}
        if data is not None:
            kw["data"] = data
        if r.store == "file":
            return cls(filename=r.ident, write_concern=wc, **kw)
        if r.store == "redis":
            return cls(client=self.redis, key=r.ident, **kw)
        if r.store == "mongo":
            return cls(collection=self.mongo, uid=dict(r.ident), **kw)
        return cls(group=self.zarr, name=r.ident, **kw)

    def add_object(self, rid, wc=False, data=None):
        r = self.res[rid]
        o = self.call(lambda: self.construct(r, wc, data))
        if isinstance(o, M.Raised):
            return o
        ob = Obj(len(self.objs), rid, o, type(o), wc)
        ob.attrs0 = set(vars(o))   # instance attributes right after construction (C18)
        self.objs.append(ob)
        h = Handle(len(self.handles), ob.oid, [], o, r.kind)
        self.handles.append(h)
        ob.root_hid = h.hid
        return ob

    # -- calling the library ---------------------------------------------------------------------
    def call(self, fn):
        s = self.seams
        s.lib_active = True
        del s.audit[:]
        try:
            return fn()
        except simlock.WouldBlock as e:
            raise Violation("lock_leak", f"operation blocked: {e}")
        except Exception as e:  # noqa - constructor errors etc.
            return M.Raised(e)
        finally:
            s.lib_active = False

    def lib_op(self, node, name, args, attr=False):
        s = self.seams
        s.lib_active = True
        del s.audit[:]
        try:
            return M.lib_apply(node, name, args, attr)
        except simlock.WouldBlock as e:
            raise Violation("lock_leak", f"operation blocked: {e}")
        finally:
            s.lib_active = False

    # -- the independent observer ------------------------------------------------------------------
    def observe(self, r):
        if r.store == "file":
            try:
                with seams.REAL["open"](r.ident, "rb") as f:
                    b = f.read()
            except FileNotFoundError:
                return ABSENT
            try:
                return seams.REAL["loads"](b)
            except Exception:
                return ("<unparsable>", b[:200])
        v = r.store_obj.raw(r.ident)
        return ABSENT if v is None else v

    def file_sig(self, r):
        if r.store != "file":
            so = r.store_obj
            return ("store", so.writes, seams.REAL["dumps"](so.raw(r.ident), sort_keys=True, default=repr))
        try:
            st = seams.REAL["stat"](r.ident)
            with seams.REAL["open"](r.ident, "rb") as f:
                b = f.read()
            return (st.st_ino, st.st_mtime_ns, st.st_size, b)
        except FileNotFoundError:
            return None

    def listing(self):
        return sorted(os.listdir(self.dir))

    def outside_write_raw(self, r, value=None, raw=None):
        """The outside writer: rewrite the resource behind every object's back."""
        if r.store == "file":
            b = raw if raw is not None else seams.REAL["dumps"](value).encode()
            tmp = r.ident + ".outside"
            with seams.REAL["open"](tmp, "wb") as f:
                f.write(b)
            seams.REAL["replace"](tmp, r.ident)
            self.clock_ns += 1_000_000
            seams.REAL["utime"](r.ident, ns=(self.clock_ns, self.clock_ns))
        else:
            r.store_obj.outside_set(r.ident, value)

    # -- handles -----------------------------------------------------------------------------------
    def revalidate(self, rid):
        r = self.res[rid]
        for h in self.handles:
            if h is not None and h.state == "attached" and self.objs[h.oid].rid == rid and h.path:
                if not has_path(r.model, h.path) or kind_of(get_path(r.model, h.path)) != h.kind:
                    h.state = "dropped"

    def handles_of(self, oid):
        return [h for h in self.handles if h is not None and h.oid == oid]

    def _under(self, h, prefix, strict=True):
        p = h.path
        if len(p) < len(prefix) + (1 if strict else 0):
            return False
        return p[:len(prefix)] == list(prefix)

    def handle_effects(self, h, name, args, lib_res, before_len=None, old_model=None):
        """Effects of an op executed through handle h on the other handles of the SAME root object."""
        p = h.path
        mine = [x for x in self.handles_of(h.oid) if x is not h and x.state == "attached"]
        shared = {}      # removed position -> ONE detached plain copy shared by every handle into that removed value

        def mark(pred, state):
            for x in mine:
                if pred(x):
                    x.state = state
                    if state == "removed":
                        # the removed value lives on as an ordinary detached object: reads through a retained handle show it
                        # (plus whatever was done to it since), writes change it and nothing else (C03/C16)
                        cut = len(p) + 1
                        key = tuple(map(repr, x.path[:cut]))
                        if old_model is not None and has_path(old_model, x.path[:cut]):
                            if key not in shared:
                                shared[key] = [deep(get_path(old_model, x.path[:cut]))]
                            x.detached, x.dpath = shared[key], list(x.path[cut:])
                        else:
                            x.detached = None
        if h.kind == "dict":
            if name == "setitem":
                mark(lambda x: self._under(x, p + [args[0]], strict=False), "dropped")
            elif name in ("delitem", "pop"):
                mark(lambda x: self._under(x, p + [args[0]], strict=False), "removed")
            elif name == "popitem":
                if not isinstance(lib_res, M.Raised) and isinstance(lib_res, tuple):
                    mark(lambda x: self._under(x, p + [lib_res[0]], strict=False), "removed")
            elif name in ("update", "update_pairs", "update_kwargs", "reset", "clear"):
                mark(lambda x: self._under(x, p), "dropped")
        else:
            if name == "setitem" and isinstance(args[0], int):
                n = before_len or 0
                i = args[0] + n if args[0] < 0 else args[0]
                mark(lambda x: self._under(x, p + [i], strict=False), "dropped")
            elif name == "pop":
                n = before_len or 0
                i = (args[0] if args else -1)
                if isinstance(i, int):
                    i = i + n if i < 0 else i
                    mark(lambda x: self._under(x, p + [i], strict=False), "removed")
                    mark(lambda x: self._under(x, p) and isinstance(x.path[len(p)], int) and x.path[len(p)] > i, "dropped")
                else:
                    mark(lambda x: self._under(x, p), "dropped")
            elif name in ("setitem", "delitem", "insert", "remove", "reverse", "clear", "reset"):
                mark(lambda x: self._under(x, p), "dropped")

    # -- buffering state ---------------------------------------------------------------------------
    def is_buffered(self, ob):
        return ob.depth > 0 or self.backend_depth.get(ob.cls, 0) > 0

    def any_buffered_ctx(self):
        return bool(self.ctx)

    # ==============================================================================================
    # step execution
    def step(self, st):
        self.nsteps += 1
        t = st["t"]
        try:
            getattr(self, "st_" + t)(st)
        except Skip:
            self.stat("skipped")
            return False
        return True

    # -- new resource / object ---------------------------------------------------------------------
    def st_new_res(self, st):
        r = self.add_resource(st["family"], st["kind"])
        init = st.get("init")
        if init is not None:
            # resource pre-populated by an outside party before any object exists
            self.outside_write_raw(r, deep(init))
            r.model, r.exists, r.disk = deep(init), True, deep(init)

    def st_new_obj(self, st):
        if st["rid"] >= len(self.res):
            raise Skip()
        ob = self.add_object(st["rid"], st.get("wc", False))
        if isinstance(ob, M.Raised):
            raise Violation("construct_failed", f"constructor raised {ob!r}")

    def st_restart(self, st):
        """Drop every library object of a resource, open a fresh one."""
        rid = st["rid"]
        if rid >= len(self.res):
            raise Skip()
        if self.ctx:
            raise Skip()
        for ob in self.objs:
            if ob.rid == rid:
                ob.alive = False
        for h in self.handles:
            if h is not None and self.objs[h.oid].rid == rid:
                h.state = "dropped"
        self.add_object(rid, st.get("wc", False))

    def st_threading(self, st):
        """enable_multithreading() / disable_multithreading() on every JSON class (a process-wide configuration switch)."""
        for fam in self.ns.json_families:
            for k in ("d", "l"):
                c = self.ns.families[fam][k]
                (c.enable_multithreading if st["on"] else c.disable_multithreading)()

    def st_leftover(self, st):
        """A stray temporary file next to the resource, as an earlier save that crashed between writing its temp file and
        renaming it (or a foreign tool) leaves behind.  No read may touch it, adopt it or create the resource from it."""
        r = self.res[st["rid"]]
        if r.store != "file":
            raise Skip()
        d, base = os.path.split(r.ident)
        name = [f"._0b1e2f3a-4c5d-4e6f-8a9b-0c1d2e3f4a5b_{base}", f"{base}.tmp", f".{base}.0b1e2f3a4c5d.tmp", f"{base}~"][st.get("scheme", 0) % 4]
        raw = seams.REAL["dumps"](st["content"]).encode()
        if st.get("partial"):
            raw = raw[:max(1, len(raw) // 2)]
        with seams.REAL["open"](os.path.join(d, name), "wb") as f:
            f.write(raw)
        self.probe("leftover_temp_file")

    def st_setcap_keep(self, st):
        """The capacity in force BEFORE any buffered context is entered (a permanent setting, e.g. 0 = write through)."""
        cls = self.cls_of(st["family"], st["kind"])
        if not hasattr(cls, "set_buffer_capacity") or self.ctx:
            raise Skip()
        res = self.call(lambda: cls.set_buffer_capacity(st["n"]))
        if isinstance(res, M.Raised):
            raise Violation("context_error", f"set_buffer_capacity({st['n']}) outside every context raised {res!r}")

    def st_setcap_cur(self, st):
        """Set the capacity to the current buffer size: nothing is flushed now, the next buffered save forces a flush."""
        cls = self.cls_of(st["family"], st["kind"])
        if not hasattr(cls, "set_buffer_capacity"):
            raise Skip()
        self.call(lambda: cls.set_buffer_capacity(cls.get_current_buffer_size()))

    def st_symlink(self, st):
        """Turn the resource's file into a symbolic link to the real file (objects are then bound to the link path)."""
        r = self.res[st["rid"]]
        if r.store != "file" or not os.path.exists(r.ident) or os.path.islink(r.ident):
            raise Skip()
        real = r.ident[:-5] + ".real.json"
        os.rename(r.ident, real)
        os.symlink(real, r.ident)

    def st_rebind(self, st):
        """Point an object (JSON families) at the file of another resource: obj.filename = <path of resource rid>."""
        oid, rid = st["oid"], st["rid"]
        if oid >= len(self.objs) or rid >= len(self.res):
            raise Skip()
        ob, r = self.objs[oid], self.res[rid]
        if not ob.alive or r.store != "file" or not hasattr(type(ob.o), "filename") or self.res[ob.rid].kind != r.kind:
            raise Skip()
        res = self.call(lambda: setattr(ob.o, "filename", r.ident))
        if isinstance(res, M.Raised):
            raise Violation("construct_failed", f"obj.filename = ... raised {res!r}")
        ob.rid = rid
        for h in self.handles:
            if h is not None and h.oid == oid and h.path:
                h.state = "dropped"

    def st_drop_gc(self, st):
        """Inside a backend-wide buffered context the user drops every reference to a collection object and the garbage
        collector runs (the "loop over many documents with short-lived objects" pattern).  Its pending buffered writes
        must still reach the file when the context exits (C05/C06/C15)."""
        oid = st["oid"]
        if oid >= len(self.objs):
            raise Skip()
        ob = self.objs[oid]
        if not ob.alive or ob.depth > 0 or not hasattr(ob.o, "buffered") or not self.backend_depth.get(ob.cls):
            raise Skip()
        ob.alive = False
        ob.gone_buffered = True
        for h in self.handles:
            if h is not None and h.oid == oid:
                h.state = "dropped"
                h.node = None
        self.userrefs = [u for u in self.userrefs if u.get("oid") != oid] if self.userrefs else self.userrefs
        ob.o = None
        import gc
        gc.collect()
        self.res[ob.rid].needs_reopen = True
        self.probe("object_dropped_while_buffered")

    def resync_uncertain(self):
        """Once no context is active, a resource that was hit by an I/O error inside a buffered operation holds whatever
        reached the disk (the failed operation may or may not have been applied): the model follows the backend."""
        if self.ctx:
            return
        for r in self.res:
            if getattr(r, "uncertain", False):
                r.uncertain = False
                obs = self.observe(r)
                if isinstance(obs, tuple) and obs and obs[0] == "<unparsable>":
                    raise Violation("wrong_data_after_fault", f"resource {r.rid} is unparsable after a faulted buffered operation")
                empty = {} if r.kind == "dict" else []
                r.model = deep(obs) if obs is not ABSENT else empty
                r.disk = deep(obs) if obs is not ABSENT else None
                r.bufstate, r.frozen = None, None
                for h in self.handles:
                    if h is not None and h.path and self.objs[h.oid].rid == r.rid:
                        h.state = "dropped"

    def reopen_dropped(self):
        """Once no context is active: resources whose objects were all dropped get a fresh object."""
        if self.ctx:
            return
        for r in self.res:
            if getattr(r, "needs_reopen", False):
                r.needs_reopen = False
                if not any(o.alive for o in self.objs if o.rid == r.rid):
                    self.add_object(r.rid, bool(self.cfg.get("wc")))

    # -- outside writer ------------------------------------------------------------------------------
    def st_outside(self, st):
        rid = st["rid"]
        if rid >= len(self.res):
            raise Skip()
        r = self.res[rid]
        ed = st["edit"]
        base = deep(r.disk) if r.disk is not None else ({} if r.kind == "dict" else [])
        if ed[0] == "replace":
            new = deep(ed[1])
            if kind_of(new) != r.kind:
                raise Skip()
        elif ed[0] == "nudge":
            # SAME SIZE content change whose mtime differs from the previous one by 1 ns only (legal for an outside
            # writer; the library's conflict fingerprint is (size, mtime_ns))
            if r.disk is None or r.store != "file":
                raise Skip()
            raw_old = seams.REAL["open"](r.ident, "rb").read()
            new_doc = _same_size_change(deep(r.disk))
            if new_doc is None:
                raise Skip()
            raw_new = seams.REAL["dumps"](new_doc).encode()
            if len(raw_new) != len(raw_old):
                raise Skip()
            mt = seams.REAL["stat"](r.ident).st_mtime_ns
            tmp = r.ident + ".outside"
            with seams.REAL["open"](tmp, "wb") as f:
                f.write(raw_new)
            seams.REAL["replace"](tmp, r.ident)
            seams.REAL["utime"](r.ident, ns=(mt + 1, mt + 1))
            self.clock_ns = max(self.clock_ns, mt + 1)
            self.stat("outside_write")
            self.stat("outside_nudge_1ns")
            self.after_outside(r, new_doc)
            return
        elif ed[0] == "reformat":
            # same content, different serialisation (key order reversed, indentation)
            if r.disk is None or r.store != "file":
                raise Skip()

            def rev(v):
                if isinstance(v, dict):
                    return {k: rev(v[k]) for k in reversed(list(v))}
                if isinstance(v, list):
                    return [rev(x) for x in v]
                return v
            self.outside_write_raw(r, raw=seams.REAL["dumps"](rev(r.disk), indent=ed[1] if len(ed) > 1 else 2).encode())
            self.stat("outside_reformat")
            if r.bufstate is not None:
                r.bufstate["changed_after"] = True
            return
        elif ed[0] == "wrongroot":
            # the document is replaced by one of the OTHER root kind (a dict file now holds a list ...): what reads do in that
            # state is not defined by any property (the test suite pins ValueError); only READS are executed meanwhile and
            # their outcome is ignored.  The interesting part is AFTERWARDS: once a proper document is back ("restore"), every
            # read must reflect it again - a failed load must not leave the object unable to load
            if r.bufstate is not None or getattr(r, "wrongroot", False) or r.disk is None:
                raise Skip()
            self.outside_write_raw(r, [5] if r.kind == "dict" else {"wrong": 5})
            r.wrongroot = True
            for h in self.handles:
                if h is not None and h.path and self.objs[h.oid].rid == r.rid:
                    h.state = "dropped"
            self.stat("outside_write")
            self.probe("outside_wrong_root_kind")
            return
        elif ed[0] == "restore":
            if not getattr(r, "wrongroot", False):
                raise Skip()
            new = deep(ed[1])
            if kind_of(new) != r.kind:
                raise Skip()
            self.outside_write_raw(r, new)
            r.wrongroot = False
            r.model, r.disk, r.exists = deep(new), deep(new), True
            self.stat("outside_write")
            return
        elif ed[0] == "delete":
            # the resource is removed outright by an outside party (C17 only: reads afterwards must not re-create it; what
            # they return is not defined by any property and is not compared)
            if r.store != "file" or r.disk is None or r.bufstate is not None:
                raise Skip()
            try:
                seams.REAL["remove"](r.ident)
            except OSError:
                raise Skip()
            r.disk, r.exists = None, False
            r.model = {} if r.kind == "dict" else []
            for h in self.handles:
                if h is not None and h.path and self.objs[h.oid].rid == r.rid:
                    h.state = "dropped"
            self.stat("outside_delete")
            self.probe("resource_deleted_outside")
            return
        elif ed[0] == "corrupt":
            self.outside_write_raw(r, raw=bytes(ed[1], "latin1"))
            r.corrupt = True
            self.stat("outside_corrupt")
            return
        else:
            new = base
            path = ed[1]
            if not path or not has_path(new, path[:-1]):
                raise Skip()
            parent = get_path(new, path[:-1])
            k = path[-1]
            if ed[0] == "set":
                if isinstance(parent, dict):
                    if not isinstance(k, str):
                        raise Skip()
                    parent[k] = deep(ed[2])
                elif isinstance(parent, list):
                    if not isinstance(k, int) or not (0 <= k <= len(parent)):
                        raise Skip()
                    if k == len(parent):
                        parent.append(deep(ed[2]))
                    else:
                        parent[k] = deep(ed[2])
                else:
                    raise Skip()
            elif ed[0] == "del":
                try:
                    del parent[k]
                except Exception:
                    raise Skip()
        self.outside_write_raw(r, new)
        r.corrupt = False
        self.stat("outside_write")
        self.after_outside(r, new)

    def after_outside(self, r, new):
        """Model update after an outside write. Default (no buffering): the backend is the truth."""
        r.disk = deep(new)
        r.exists = True
        if r.bufstate is not None:
            r.bufstate["changed_after"] = True
            self.probe("outside_write_while_buffered")
            return
        r.model = deep(new)
        self.revalidate(r.rid)

    # -- operations ---------------------------------------------------------------------------------
    def st_op(self, st):
        hid = st["hid"]
        if hid >= len(self.handles) or self.handles[hid] is None:
            raise Skip()
        h = self.handles[hid]
        ob = self.objs[h.oid]
        if not ob.alive or h.state == "dropped":
            raise Skip()
        r = self.res[ob.rid]
        name, attr = st["name"], st.get("attr", False)
        mut = M.is_mutator(h.kind, name)
        if h.state == "removed" and not mut and getattr(h, "detached", None) is None:
            raise Skip()
        if getattr(r, "corrupt", False) and "corrupt_ok" not in self.cfg:
            raise Skip()
        if getattr(r, "uncertain", False):
            raise Skip()       # after an I/O error inside a buffered operation the resource is left alone until the contexts exit
        if getattr(r, "wrongroot", False):
            if mut or h.path:
                raise Skip()
            self.lib_op(h.node, name, M.dec(st.get("args", []), None), attr)   # outcome ignored (see st_outside 'wrongroot')
            self.stat("ops")
            return
        handle_nodes = [x.node if x is not None else None for x in self.handles]
        args = M.dec(st.get("args", []), handle_nodes)
        margs = M.dec(st.get("args", []), _ModelOperands(self))
        buffered = self.is_buffered(ob) if hasattr(ob.o, "buffered") else False

        # ---- model side (on a copy first: the model is only committed if the library also succeeds) -----
        dcopy = None
        if h.state == "attached":
            if not has_path(r.model, h.path):
                raise Skip()
            trial = deep(r.model)
            target = get_path(trial, h.path)
            if kind_of(target) != h.kind:
                raise Skip()
            before_len = len(target)
            mres = M.model_apply(target, name, margs)
        elif h.state == "removed" and getattr(h, "detached", None) is not None:
            # the detached model of a removed value (a one-element list so that all handles into it share it)
            dcopy = deep(h.detached[0])
            if not has_path(dcopy, h.dpath) or kind_of(get_path(dcopy, h.dpath)) != h.kind:
                raise Skip()
            trial, target = None, get_path(dcopy, h.dpath)
            before_len = len(target)
            mres = M.model_apply(target, name, margs)
            if name == "popitem" and not isinstance(mres, M.Raised):
                raise Skip()
        else:
            trial, target, before_len = None, None, 0
            mres = None
            dcopy = None

        if attr and isinstance(mres, M.Raised) and mres.cls is KeyError and name == "getitem":
            mres = M.Raised(AttributeError(str(mres.exc)))  # attribute syntax: missing key -> AttributeError (C18)
        # (del obj.missing: the statement is ambiguous - "exactly like del obj['k']" (KeyError) vs "missing key ->
        #  AttributeError"; the pinned tree raises KeyError, which is accepted; see DESIGN §7)
        if name in ("update", "update_pairs", "update_kwargs", "reset"):
            self.order_taint.add(ob.rid)
        pre = self.pre_op(r, ob, h, name, mut, buffered)
        if st.get("fault") is not None:
            return self.faulted_op(st, r, ob, h, name, args, trial, mres)
        if st.get("rejected"):
            lres_raw = self.lib_op(h.node, name, args, attr)
            if not isinstance(lres_raw, M.Raised) or not isinstance(lres_raw.exc, (TypeError, ValueError)):
                raise Violation("accepted_forbidden", f"{name}{jsonable(st.get('args', []))} was not rejected with TypeError/ValueError: {lres_raw!r}")
            self.stat("ops")
            self.post_op(r, ob, h, name, False, buffered, pre, changed=False, lres=lres_raw)
            return
        lres_raw = self.lib_op(h.node, name, args, attr)
        lres = M.result_plain(name, lres_raw, self.SC)
        self.stat("ops")
        self.stat("op_" + ("mut" if mut else "read"))
        if h.path:
            self.stat("ops_nested")

        if h.state == "removed":
            # C16: mutating a removed value changes nothing in the collection or the backend (model untouched); the removed
            # value itself behaves like the plain detached object it now is (C03)
            if getattr(h, "detached", None) is not None and dcopy is not None and ("result" in self.oracles or ("read_result" in self.oracles and not mut)):
                msg = M.results_agree(name, h.kind, lres, mres)
                if msg is not None:
                    raise Violation("result!=model", f"{name}{jsonable(st.get('args', []))} on a value that was removed from the collection "
                                    f"earlier (retained {h.kind} handle, originally at {h.path}): {msg}", step=st)
                self.probe("removed_value_used")
            if getattr(h, "detached", None) is not None and mut and dcopy is not None and not isinstance(mres, M.Raised) and not isinstance(lres, M.Raised):
                h.detached[0] = dcopy
                # positions inside the removed value that this op removed / reassigned are simply no longer used
                for x in self.handles_of(h.oid):
                    if x is not h and x.state == "removed" and getattr(x, "detached", None) is h.detached and len(x.dpath) > len(h.dpath) and x.dpath[:len(h.dpath)] == h.dpath:
                        x.state = "dropped"
            elif getattr(h, "detached", None) is not None and mut and dcopy is not None and (isinstance(mres, M.Raised) != isinstance(lres, M.Raised)):
                h.detached = None      # outcome kinds differ and no result oracle spoke: stop modelling this value
            self.post_op(r, ob, h, name, mut, buffered, pre, changed=False, lres=lres)
            return

        # popitem: any current item
        if name == "popitem" and h.kind == "dict" and not isinstance(mres, M.Raised) and not isinstance(lres, M.Raised):
            k = lres[0] if isinstance(lres, list) and len(lres) == 2 else None
            if k is None or k not in target:
                raise Violation("result!=model", f"popitem returned {lres!r}, not an item of {target!r}", step=st)
            if "popitem_lifo" in self.oracles and ob.rid not in self.order_taint and k != list(target)[-1]:
                # C03: the only documented ordering deviation is "after bulk updates"; with keys inserted one by one the
                # order is specified and dict.popitem() removes the LAST inserted item
                raise Violation("result!=model", f"popitem returned {lres!r} but the built-in dict.popitem() removes the last "
                                f"inserted item {list(target)[-1]!r} of {target!r} (no bulk update/reset happened on this resource)", step=st)
            mres = [k, target.pop(k)]

        if "result" in self.oracles or ("read_result" in self.oracles and not mut):
            msg = M.results_agree(name, h.kind, lres, mres)
            if msg is not None:
                raise Violation("result!=model", f"{name}{jsonable(st.get('args', []))} on {h.kind} at {h.path}: {msg}",
                                step=st)
        lib_raised = isinstance(lres, M.Raised)
        mod_raised = isinstance(mres, M.Raised)
        if "accept" in self.oracles and lib_raised and not mod_raised:
            raise Violation("rejected_valid", f"{name}{jsonable(st.get('args', []))} raised {lres!r}", step=st)
        changed = False
        if mut and not lib_raised and not mod_raised:
            changed = not same(trial, r.model)
            old_model = r.model
            r.model = trial
            r.exists = True
            self.handle_effects(h, name, args, lres_raw, before_len, old_model=old_model)
            self.revalidate(r.rid)
        elif mut and (lib_raised != mod_raised):
            # outcome kinds differ and the result oracle is off: follow the library (if it raised, nothing changed)
            if not lib_raised:
                r.model = trial if not mod_raised else r.model
                r.exists = True
                self.revalidate(r.rid)
            st["_diverged"] = True
        self.post_op(r, ob, h, name, mut and not lib_raised, buffered, pre, changed=changed, lres=lres)
        if "children" in self.oracles and name == "getitem" and not lib_raised and not mod_raised and h.state == "attached" \
                and isinstance(mres, (dict, list)) and not isinstance(args[0], slice) and not isinstance(lres_raw, self.SC):
            raise Violation("child_not_synced", f"{name}{jsonable(st.get('args', []))} on {h.kind} at {h.path} returned a plain "
                            f"{type(lres_raw).__name__}: mutating it would not persist", step=st)
        # retain a returned child as a new handle
        if st.get("keep") and isinstance(lres_raw, self.SC) and not lib_raised:
            if name == "getitem":
                k = args[0]
                if isinstance(k, int) and k < 0:
                    k += before_len
                newp = h.path + [k]
            elif name in ("get", "setdefault"):
                newp = h.path + [args[0]]
            else:
                newp = None
            if newp is not None and has_path(r.model, newp):
                hid_new = st.get("hid_new")
                if hid_new is None or hid_new < len(self.handles):
                    hid_new = len(self.handles)
                st["hid_new"] = hid_new   # stable handle ids: removing an earlier step must not renumber later ones
                while len(self.handles) < hid_new:
                    self.handles.append(None)
                nh = Handle(hid_new, h.oid, newp, lres_raw, kind_of(get_path(r.model, newp)))
                self.handles.append(nh)
            elif st.get("hid_new") is not None:
                while len(self.handles) <= st["hid_new"]:
                    self.handles.append(None)

    def faulted_op(self, st, r, ob, h, name, args, trial, mres):
        """Fault-injecting configuration: an I/O error is injected at one seam call of this operation. The operation
        may fail and may or may not have been applied; it must never leave wrong data (deliberately narrow relaxation)."""
        self.seams.arm({"at": st["fault"]["at"], "exc": tuple(st["fault"]["exc"])})
        try:
            lres_raw = self.lib_op(h.node, name, args, st.get("attr", False))
        finally:
            fired = bool(self.seams.fired)
            del self.seams.fired[:]
            self.seams.disarm()
        self.stat("ops")
        if not fired:
            self.stat("fault_not_reached")
        else:
            self.stat("fault_io_error")
            self.probe("fault_fired")
        obs = self.observe(r)
        exp_old = ABSENT if r.disk is None else r.disk
        raised = isinstance(lres_raw, M.Raised)
        new_ok = trial is not None and not isinstance(mres, M.Raised)
        if not M.is_mutator(h.kind, name):
            # a faulted READ may fail; if it returns it must return the backend's current content, never stale data (C02)
            if fired:
                self.probe("fault_fired_in_read")
            if not raised and trial is not None and ("result" in self.oracles or "read_result" in self.oracles):
                msg = M.results_agree(name, h.kind, M.result_plain(name, lres_raw, self.SC), mres)
                if msg is not None:
                    raise Violation("result!=model", f"{name}{jsonable(st.get('args', []))} on {h.kind} at {h.path} with an injected "
                                    f"I/O error {st['fault']} ({'fired' if fired else 'not reached'}) returned normally but not the "
                                    f"backend's content: {msg}", step=st)
            if raised and not fired and not isinstance(mres, M.Raised):
                raise Violation("result!=model", f"{name}{jsonable(st.get('args', []))} raised {lres_raw!r} although no fault fired", step=st)
            return

        def eq(a, b):
            return (a is ABSENT and b is ABSENT) or (a is not ABSENT and b is not ABSENT and same(a, b))
        is_old = eq(obs, exp_old) or (obs is not ABSENT and exp_old is ABSENT and same(obs, r.model))
        is_new = new_ok and obs is not ABSENT and same(obs, trial)
        if name == "popitem" and h.kind == "dict" and new_ok and obs is not ABSENT and has_path(obs, h.path):
            # popitem removes ANY one item: the new content is the old one minus exactly one key at the handle's path
            tgt_old, tgt_obs = get_path(trial, h.path), get_path(obs, h.path)
            if isinstance(tgt_obs, dict) and len(tgt_obs) == len(tgt_old) - 1 and all(k in tgt_old and same(v, tgt_old[k]) for k, v in tgt_obs.items()):
                probe_new = deep(trial)
                for k in list(get_path(probe_new, h.path)):
                    if k not in tgt_obs:
                        del get_path(probe_new, h.path)[k]
                if same(probe_new, obs):
                    trial, is_new = probe_new, True
            else:
                is_new = False
        if is_new:
            r.model, r.disk, r.exists = trial, deep(trial), True
        elif is_old:
            if not raised and new_ok and not same(trial, r.model) and M.is_mutator(h.kind, name):
                raise Violation("backend!=model", f"{name}{jsonable(st.get('args', []))} returned normally (fault {st['fault']}, "
                                f"{'fired' if fired else 'not reached'}) but the backend still holds the previous content")
            if obs is not ABSENT:
                r.disk, r.exists = deep(obs), True
        else:
            raise Violation("wrong_data_after_fault", f"{name}{jsonable(st.get('args', []))} with {st['fault']} "
                            f"({'raised ' + repr(lres_raw) if raised else 'returned'}): backend holds {jsonable(obs)!r}, neither the "
                            f"previous content {jsonable(exp_old)!r} nor the new one {jsonable(trial)!r}")
        # handles may be stale in arbitrary ways after a failed save: drop nested ones of this resource
        for x in self.handles:
            if x is not None and x.path and self.objs[x.oid].rid == r.rid and x.state == "attached":
                x.state = "dropped"
        self.revalidate(r.rid)

    def _model_operands(self, enc, margs):
        """Replace {"$handle": i} operands by the model's plain value of that handle (for comparisons)."""
        out = list(margs)
        for i, a in enumerate(enc):
            if isinstance(a, dict) and "$handle" in a and len(a) == 1:
                hh = self.handles[a["$handle"]]
                rr = self.res[self.objs[hh.oid].rid]
                out[i] = deep(get_path(rr.model, hh.path)) if has_path(rr.model, hh.path) else None
        return out

    # -- oracle hooks around an op -----------------------------------------------------------------
    def pre_op(self, r, ob, h, name, mut, buffered):
        pre = {}
        if "nowrite" in self.oracles:
            pre["sigs"] = [self.file_sig(x) for x in self.res]
            pre["listing"] = self.listing()
            pre["writes"] = (self.redis.writes, self.mongo.writes, self.zarr.writes)
        return pre

    def post_op(self, r, ob, h, name, mutated, buffered, pre, changed, lres):
        o = self.oracles
        if buffered:
            # a mutator that raised still went through load-and-save: the buffered copy counts as written to
            self.buffered_touch(r, ob, mutated and changed, mutated or M.is_mutator(h.kind, name))
        elif mutated:
            r.disk = deep(r.model)
        if "locks" in o:
            self.check_locks(name)
        self.check_frozen(f"op {name}")
        if "backend" in o:
            self.check_backend(only_on_mut=not mutated)
        if "nowrite" in o and not M.is_mutator(h.kind, name):
            self.check_nowrite(pre, f"read op {name}")
        if "bufsize" in o:
            self.check_bufsize(f"after {name}")

    def check_locks(self, what):
        held = simlock.held()
        if held:
            lib.lock_labels()
            raise Violation("lock_leak", f"after {what} returned/raised the caller still holds {held!r}")

    def check_backend(self, only_on_mut=False, what=""):
        for r in self.res:
            obs = self.observe(r)
            exp = ABSENT if r.disk is None else r.disk
            if getattr(r, "corrupt", False) or getattr(r, "uncertain", False) or getattr(r, "wrongroot", False):
                continue
            if r.frozen is None and self.cfg.get("forced_flush_possible") and r.bufstate is not None:
                # a capacity-forced flush may have written the logical content
                if obs is not ABSENT and same(obs, r.model):
                    if not same(obs, exp):
                        self.probe("forced_flush_observed")
                    r.disk = deep(r.model)
                    continue
            if obs is not ABSENT:
                r.ever_on_disk = True
            if obs is ABSENT and exp is ABSENT:
                continue
            if obs is ABSENT and not getattr(r, "ever_on_disk", False) and exp in ({}, []):
                continue  # a resource that never existed is equivalent to empty logical content
            if exp is ABSENT and obs is not ABSENT and r.bufstate is None and same(obs, r.model):
                # a failed mutator may create the resource with exactly the (empty) logical content
                r.disk, r.exists = deep(r.model), True
                continue
            if obs is ABSENT or exp is ABSENT or not same(obs, exp):
                raise Violation("backend!=model", f"resource {r.rid} ({r.family} {r.kind}) holds {jsonable(obs)!r}, "
                                f"expected {jsonable(exp)!r} {what}")
            if not is_plain_json(obs):
                raise Violation("backend_not_plain", f"resource {r.rid} holds non-plain data {obs!r}")

    def check_nowrite(self, pre, what):
        s = self.seams
        wr = [e for e in s.audit]
        if wr:
            raise Violation("wrote_on_read", f"{what}: file-system write events {wr[:3]!r}")
        sigs = [self.file_sig(x) for x in self.res]
        for x, a, b in zip(self.res, pre["sigs"], sigs):
            if a != b:
                raise Violation("wrote_on_read", f"{what}: resource {x.rid} changed "
                                f"({'created' if a is None else 'rewritten' if b is not None else 'removed'})")
        if pre["listing"] != self.listing():
            raise Violation("wrote_on_read", f"{what}: directory listing changed {pre['listing']} -> {self.listing()}")
        if pre["writes"] != (self.redis.writes, self.mongo.writes, self.zarr.writes):
            raise Violation("wrote_on_read", f"{what}: store write counter changed")

    # -- buffered contexts -----------------------------------------------------------------------------
    def buffered_touch(self, r, ob, content_changed, mutated):
        """An op was executed through a buffered object: the file is now held in the buffer."""
        ob.touched = True
        if r.bufstate is None:
            r.bufstate = {"modified": False, "changed_after": False, "mutated": False}
            self.probe("file_entered_buffer")
        if content_changed:
            r.bufstate["modified"] = True
        if mutated:
            r.bufstate["mutated"] = True

    def st_enter(self, st):
        if st["ctx"] == "obj":
            if st["oid"] >= len(self.objs):
                raise Skip()
            ob = self.objs[st["oid"]]
            if not ob.alive or not hasattr(ob.o, "buffered"):
                raise Skip()
            res = self.call(lambda: ob.o.buffered.__enter__())
            if isinstance(res, M.Raised):
                raise Violation("context_error", f"obj.buffered.__enter__ raised {res!r}")
            ob.depth += 1
            self.ctx.append({"kind": "obj", "oid": ob.oid})
        else:
            cls = self.cls_of(st["family"], st["kind"])
            if not hasattr(cls, "buffer_backend"):
                raise Skip()
            cap = st.get("cap")
            cm = cls.buffer_backend(cap) if cap is not None else cls.buffer_backend()
            before_cap = cls.get_buffer_capacity()
            res = self.call(lambda: cm.__enter__())
            if isinstance(res, M.Raised):
                raise Violation("context_error", f"buffer_backend().__enter__ raised {res!r}")
            self.backend_depth[cls] = self.backend_depth.get(cls, 0) + 1
            self.ctx.append({"kind": "backend", "cls": cls, "cm": cm, "cap_before": before_cap, "cap": cap})
        self.stat("ctx_enter")
        self.freeze()
        self.check_frozen("context enter")
        if "backend" in self.oracles:
            self.check_backend(what="after context enter")
        if "bufsize" in self.oracles:
            self.check_bufsize("after enter")

    def freeze(self):
        """Record the signature of every file whose object(s) just became buffered (oracle 'frozen')."""
        if "frozen" not in self.oracles or self.cfg.get("forced_flush_possible"):
            return
        for ob in self.objs:
            if ob.alive and hasattr(ob.o, "buffered") and self.is_buffered(ob):
                r = self.res[ob.rid]
                if r.frozen is None:
                    r.frozen = (self.file_sig(r), self.listing())

    def check_frozen(self, what):
        if "frozen" not in self.oracles:
            return
        for r in self.res:
            if r.frozen is not None:
                sig = self.file_sig(r)
                if sig != r.frozen[0]:
                    raise Violation("written_while_buffered", f"{what}: file of resource {r.rid} was "
                                    f"{'created' if r.frozen[0] is None else 'rewritten'} before its outermost buffered context exited")
                mine = {os.path.basename(x.ident) for x in self.res if x.store == "file"}
                tmp = [x for x in self.listing() if x not in r.frozen[1] and x not in mine]
                if tmp:
                    raise Violation("written_while_buffered", f"{what}: new files {tmp} appeared while buffered")

    def st_exit(self, st):
        if not self.ctx:
            raise Skip()
        c = self.ctx.pop()
        pre = self.pre_op(None, None, None, "exit", False, False)
        if st.get("fault") is not None:
            return self.faulted_exit(st, c)
        if c["kind"] == "obj":
            ob = self.objs[c["oid"]]
            res = self.call(lambda: ob.o.buffered.__exit__(None, None, None))
            ob.depth -= 1
            flushed = [ob] if not self.is_buffered(ob) else []
            cls = ob.cls
        else:
            cls = c["cls"]
            res = self.call(lambda: c["cm"].__exit__(None, None, None))
            self.backend_depth[cls] -= 1
            flushed = []
            if self.backend_depth[cls] == 0:
                flushed = [ob for ob in self.objs if ob.cls is cls and (ob.alive or getattr(ob, "gone_buffered", False)) and ob.depth == 0]
                for ob in flushed:
                    ob.gone_buffered = False
        self.stat("ctx_exit")
        unc = [r for r in self.res if getattr(r, "uncertain", False)]
        if unc and isinstance(res, M.Raised) and isinstance(res.exc, (OSError, self.ns.errors.BufferedError)):
            res = None      # a flush may fail for a file that was hit by an I/O error earlier
        self.after_exit(c, cls, flushed, res, pre)
        self.reopen_dropped()
        self.resync_uncertain()

    def faulted_exit(self, st, c):
        """Fault-injecting configuration: an I/O error hits the flush of a context exit. The exit may raise and buffered
        data of the affected file may be lost (never wrong data elsewhere); afterwards the model is re-synchronised
        from the backend and the bookkeeping oracles (buffer size, capacity, locks) must hold as usual."""
        self.seams.arm({"at": st["fault"]["at"], "exc": tuple(st["fault"]["exc"])})
        try:
            if c["kind"] == "obj":
                ob = self.objs[c["oid"]]
                res = self.call(lambda: ob.o.buffered.__exit__(None, None, None))
                ob.depth -= 1
                cls = ob.cls
            else:
                cls = c["cls"]
                res = self.call(lambda: c["cm"].__exit__(None, None, None))
                self.backend_depth[cls] -= 1
        finally:
            fired = bool(self.seams.fired)
            del self.seams.fired[:]
            self.seams.disarm()
        if fired:
            self.probe("fault_fired_in_flush")
            self.stat("fault_io_error")
        if isinstance(res, M.Raised) and not fired:
            raise Violation("context_error", f"leaving {c['kind']} context raised {res!r} although no fault fired")
        if isinstance(res, M.Raised) and not isinstance(res.exc, (OSError, self.ns.errors.BufferedError)):
            raise Violation("context_error", f"leaving {c['kind']} context with an injected OSError raised {res!r}")
        # re-synchronise: files of objects that are no longer buffered hold whatever reached the disk
        for r in self.res:
            if getattr(r, "uncertain", False):
                continue      # hit by an I/O error inside an operation earlier: resynchronised below
            if not any(self.is_buffered(x) for x in self.objs if x.rid == r.rid and x.alive and hasattr(x.o, "buffered")):
                obs = self.observe(r)
                if obs is not ABSENT and not (isinstance(obs, tuple) and obs and obs[0] == "<unparsable>"):
                    exp_ok = (r.disk is not None and same(obs, r.disk)) or same(obs, r.model)
                    if not exp_ok:
                        raise Violation("wrong_data_after_fault", f"after a failed flush resource {r.rid} holds {jsonable(obs)!r}, neither the "
                                        f"previous {jsonable(r.disk)!r} nor the buffered content {jsonable(r.model)!r}")
                    r.model, r.disk, r.exists = deep(obs), deep(obs), True
                elif obs is ABSENT:
                    r.model, r.disk = ({} if r.kind == "dict" else []), None
                r.bufstate, r.frozen = None, None
                for h in self.handles:
                    if h is not None and h.path and self.objs[h.oid].rid == r.rid:
                        h.state = "dropped"
        hook = getattr(self, "after_faulted_exit", None)
        if hook:
            hook(c, cls)
        self.resync_uncertain()
        if "locks" in self.oracles:
            self.check_locks("faulted context exit")
        if "bufsize" in self.oracles:
            self.check_bufsize("after a context exit with an injected I/O error")

    def st_enter_group(self, st):
        """Per-object contexts of several objects entered back-to-back (a common buffered state)."""
        if any(oid >= len(self.objs) or not self.objs[oid].alive for oid in st["oids"]):
            raise Skip()      # all or nothing: a partially entered group would be a mixed buffering state
        for oid in st["oids"]:
            self.st_enter({"t": "enter", "ctx": "obj", "oid": oid})

    def st_exit_group(self, st):
        """Leave the n innermost contexts back-to-back; oracles are evaluated after the last one only."""
        saved = self.oracles
        n = min(st["n"], len(self.ctx))
        if n == 0:
            raise Skip()
        order = st.get("order")
        if order:
            # exit order of per-object contexts is a generated choice: reorder the top n entries
            top = self.ctx[-n:]
            if all(c["kind"] == "obj" for c in top) and sorted(order) == list(range(n)):
                self.ctx[-n:] = [top[i] for i in order]
        try:
            for i in range(n):
                if i < n - 1:
                    self.oracles = saved - {"backend", "bufsize", "nowrite", "frozen"}
                else:
                    self.oracles = saved
                self.st_exit({"t": "exit"})
        finally:
            self.oracles = saved

    def after_exit(self, c, cls, flushed, res, pre):
        """Default exit semantics (no outside writer): exits never raise; flushed files hold the logical content."""
        if isinstance(res, M.Raised):
            raise Violation("context_error", f"leaving {c['kind']} context raised {res!r}")
        # files with pending buffered modifications may be written by this exit (flush, or a capacity restore that
        # forces one); everything else must stay untouched
        written = {x.rid for x in self.res if x.bufstate is not None and x.bufstate["mutated"]}
        for ob in flushed:
            r = self.res[ob.rid]
            # the file leaves the buffer only when no object bound to it is still buffered
            if any(self.is_buffered(x) for x in self.objs if x.rid == ob.rid and x.alive):
                continue
            if r.bufstate is not None:
                if r.bufstate["mutated"]:
                    r.disk = deep(r.model)
                    written.add(r.rid)
                r.bufstate = None
            r.frozen = None
            ob.touched = False
        self.check_frozen("context exit")
        o = self.oracles
        if "locks" in o:
            self.check_locks("context exit")
        if "backend" in o:
            self.check_backend(what="after context exit")
        if "nowrite" in o:
            # resources that were only read (or untouched) must not have been written by the exit
            sigs = [self.file_sig(x) for x in self.res]
            for x, a, b in zip(self.res, pre["sigs"], sigs):
                if x.rid not in written and a != b:
                    raise Violation("wrote_on_read", f"context exit rewrote resource {x.rid} that was only read")
        if "bufsize" in o:
            self.check_bufsize("after exit")
        if c["kind"] == "backend" and "capacity" in o and c.get("cap") is not None:
            if cls.get_buffer_capacity() != c["cap_before"]:
                raise Violation("capacity_not_restored", f"capacity {cls.get_buffer_capacity()} after exit, "
                                f"{c['cap_before']} before enter")

    def st_setcap(self, st):
        cls = self.cls_of(st["family"], st["kind"])
        if not hasattr(cls, "set_buffer_capacity"):
            raise Skip()
        res = self.call(lambda: cls.set_buffer_capacity(st["n"]))
        if isinstance(res, M.Raised):
            raise Violation("context_error", f"set_buffer_capacity raised {res!r}")
        if "backend" in self.oracles:
            self.check_backend(what="after set_buffer_capacity")
        if "bufsize" in self.oracles:
            self.check_bufsize("after set_buffer_capacity")

    def check_bufsize(self, what):
        pass  # provided by the C15 profile (sim.props.c15)

    # -- final checks ----------------------------------------------------------------------------------
    def finish(self):
        """Leave all contexts (innermost first) and run the end-of-run oracles."""
        if self.ctx:
            self.st_exit_group({"t": "exit_group", "n": len(self.ctx)})
        if "backend" in self.oracles:
            self.check_backend(what="at end of run")
        if "locks" in self.oracles:
            self.check_locks("end of run")


def run_trace(cfg, steps, world_cls=World):
    """Execute a recorded trace. Returns (violation dict | None, world stats)."""
    w = world_cls(cfg)
    try:
        try:
            for st in steps:
                w.step(st)
            w.finish()
        except Violation as v:
            return {"kind": v.kind, "msg": v.msg, "at_step": w.nsteps}, w
        return None, w
    finally:
        w.close()
