"""Engine D - warmsim: process-history / restart equivalence for C19.

A probe is (operation, value).  Its outcome after a seeded warm-up history must equal its outcome in a restarted
process.  Restart = every AbstractTypeResolver.type_map cleared + class-level state reset (lib.world_reset), and is
cross-checked against a child forked from the template before any library operation."""
import collections
import collections.abc as cabc
import decimal
import fractions
import warnings

from ..core import lib
from ..core.values import plain


class Base:
    pass


class PlainObj(Base):
    def __init__(self):
        self.x = 1


class DerivedMapping(Base, cabc.Mapping):
    def __init__(self, d=None):
        self._d = dict(d or {"k": 1})

    def __getitem__(self, k):
        return self._d[k]

    def __iter__(self):
        return iter(self._d)

    def __len__(self):
        return len(self._d)


class DerivedSeq(Base, cabc.Sequence):
    def __init__(self, d=None):
        self._d = list(d or [1, 2])

    def __getitem__(self, i):
        return self._d[i]

    def __len__(self):
        return len(self._d)


class StrSub(str):
    pass


class IntSub(int):
    pass


class FloatSub(float):
    pass


class DictSub(dict):
    pass


class ListSub(list):
    pass


class TupleSub(tuple):
    pass


class BothMS(collections.UserDict):
    """Both a Mapping and (registered) a Sequence."""


cabc.Sequence.register(BothMS)


class SeqOfStrSub(DerivedSeq):
    pass


class MappingSub2(DerivedMapping):
    pass


NT = collections.namedtuple("NT", "a b")


class DuckSeq:
    """List-like by protocol only (no ABC base, not registered): __getitem__/__len__/__iter__/__contains__."""

    def __init__(self, items=(1, 2, 3)):
        self._items = list(items)

    def __getitem__(self, i):
        return self._items[i]

    def __len__(self):
        return len(self._items)

    def __iter__(self):
        return iter(self._items)

    def __contains__(self, x):
        return x in self._items


class DuckMap:
    """Dict-like by protocol only (no ABC base, not registered): keys/__getitem__/__len__/__iter__/items."""

    def __init__(self):
        self._d = {"a": 1}

    def keys(self):
        return self._d.keys()

    def items(self):
        return self._d.items()

    def __getitem__(self, k):
        return self._d[k]

    def __len__(self):
        return len(self._d)

    def __iter__(self):
        return iter(self._d)


class StrMapping(str):
    """A str subclass that is (registered as) a Mapping: scalar by one test, mapping by another."""

    def keys(self):
        return []

    def __getitem__(self, k):
        return str.__getitem__(self, k)


cabc.Mapping.register(StrMapping)


class Neither:
    def __iter__(self):
        return iter([1])


_KEEP = []   # referents of live weak proxies


def _dead_proxy():
    import weakref
    o = DerivedMapping()
    p = weakref.proxy(o)
    del o
    import gc
    gc.collect()
    return p


def _live_proxy(factory):
    import weakref
    o = factory()
    _KEEP.append(o)
    del _KEEP[:-8]
    return weakref.proxy(o)


def _transient(kind):
    """A value of a class that is created for this value only (and garbage-collected with it)."""
    import gc
    gc.collect()   # earlier transient classes die here: their address can be recycled by the class created now
    if kind == "mapping":
        cls = type("TransientMapping", (DerivedMapping,), {})
        return cls({"k": 1})
    if kind == "seq":
        cls = type("TransientSeq", (DerivedSeq,), {})
        return cls([1, 2])
    cls = type("TransientPlain", (Base,), {})
    return cls()


def pool(with_numpy=True):
    """name -> factory of a fresh value."""
    p = collections.OrderedDict()
    p["deadproxy"] = _dead_proxy
    p["liveproxy_mapping"] = lambda: _live_proxy(DerivedMapping)
    p["liveproxy_seq"] = lambda: _live_proxy(DerivedSeq)
    p["liveproxy_obj"] = lambda: _live_proxy(PlainObj)
    p["transient_mapping"] = lambda: _transient("mapping")
    p["transient_seq"] = lambda: _transient("seq")
    p["transient_plain"] = lambda: _transient("plain")
    p["none"] = lambda: None
    p["true"] = lambda: True
    p["int"] = lambda: 7
    p["float"] = lambda: 2.5
    p["nan"] = lambda: float("nan")
    p["inf"] = lambda: float("inf")
    p["str"] = lambda: "s"
    p["dict"] = lambda: {"a": 1}
    p["list"] = lambda: [1, 2]
    p["tuple"] = lambda: (1, 2)
    p["emptydict"] = lambda: {}
    p["emptylist"] = lambda: []
    p["nested"] = lambda: {"a": [1, {"b": (2, 3)}]}
    p["intkeydict"] = lambda: {1: 2}
    p["dotkeydict"] = lambda: {"a.b": 1}
    p["bytes"] = lambda: b"ab"
    p["bytearray"] = lambda: bytearray(b"ab")
    p["memoryview"] = lambda: memoryview(b"ab")
    p["range"] = lambda: range(3)
    p["set"] = lambda: {1, 2}
    p["frozenset"] = lambda: frozenset([1])
    p["complex"] = lambda: 1 + 2j
    p["decimal"] = lambda: decimal.Decimal("1.5")
    p["fraction"] = lambda: fractions.Fraction(1, 3)
    p["object"] = lambda: object()
    p["plainobj"] = lambda: PlainObj()
    p["base"] = lambda: Base()
    p["derivedmapping"] = lambda: DerivedMapping()
    p["mappingsub2"] = lambda: MappingSub2()
    p["derivedseq"] = lambda: DerivedSeq()
    p["seqsub2"] = lambda: SeqOfStrSub()
    p["strsub"] = lambda: StrSub("x")
    p["intsub"] = lambda: IntSub(3)
    p["floatsub"] = lambda: FloatSub(1.5)
    p["dictsub"] = lambda: DictSub(a=1)
    p["listsub"] = lambda: ListSub([1])
    p["tuplesub"] = lambda: TupleSub((1,))
    p["namedtuple"] = lambda: NT(1, 2)
    p["ordereddict"] = lambda: collections.OrderedDict(a=1)
    p["userdict"] = lambda: collections.UserDict(a=1)
    p["userlist"] = lambda: collections.UserList([1])
    p["deque"] = lambda: collections.deque([1, 2])
    p["duckseq"] = lambda: DuckSeq()
    p["duckseq_nested"] = lambda: {"v": DuckSeq([4, 5])}
    p["duckmap"] = lambda: DuckMap()
    p["bothms"] = lambda: BothMS({"x": 1, "y": 2})
    # multi-category values whose ACCEPTANCE depends on which category wins (non-str / dotted keys are only seen when the
    # value is walked as a mapping)
    p["bothms_intkeys"] = lambda: BothMS({1: "x"})
    p["bothms_dotkeys"] = lambda: BothMS({"a.b": 1})
    p["bothms_nested_bad"] = lambda: {"row": BothMS({2: {"z": {1, 2}}})}
    p["strmapping"] = lambda: StrMapping("sm")
    # rejected values nested three containers deep (bookkeeping on the error path of recursive validators)
    p["nested_bad_set"] = lambda: {"a": [{"b": {1, 2}}]}
    p["nested_bad_complex"] = lambda: [[[1 + 2j]]]
    p["nested_bad_obj"] = lambda: {"a": {"b": [object()]}}
    p["nested_bad_intkey"] = lambda: {"a": [{"b": {1: 2}}]}
    p["deep_valid"] = lambda: {"a": {"b": {"c": {"d": [1, [2, [3, {"e": "f"}]]]}}}}
    p["neither_iterable"] = lambda: Neither()
    p["dictkeys"] = lambda: {"a": 1}.keys()
    p["dictvalues"] = lambda: {"a": 1}.values()
    p["generator"] = lambda: (x for x in [1])
    p["type"] = lambda: int
    if with_numpy:
        try:
            import numpy as np
            p["np0d"] = lambda: np.array(3)
            p["np1d"] = lambda: np.array([1, 2])
            p["np2d"] = lambda: np.array([[1, 2], [3, 4]])
            p["npempty"] = lambda: np.array([])
            p["npint"] = lambda: np.int64(3)
            p["npfloat"] = lambda: np.float32(1.5)
            p["npbool"] = lambda: np.bool_(True)
            p["npcomplex"] = lambda: np.complex128(1 + 2j)
            p["npcomplex1d"] = lambda: np.array([1 + 2j])
            p["nplongdouble"] = lambda: np.longdouble(1.5)
            p["npstr"] = lambda: np.str_("s")
            p["npobjarr"] = lambda: np.array([{"a": 1}], dtype=object)
        except ImportError:
            pass
    return p


def outcome_of(fn):
    with warnings.catch_warnings():
        warnings.simplefilter("ignore")
        try:
            return ("ok", fn())
        except Exception as e:  # noqa
            return ("exc", type(e).__name__)


def at_low_stack(fn, headroom):
    """Run fn() with only `headroom` frames left below the recursion limit (deep call stacks are legal histories: a
    classification that fails there - RecursionError inside an isinstance/ABC check - must not be remembered)."""
    import sys
    depth = 0
    f = sys._getframe()
    while f is not None:
        depth += 1
        f = f.f_back
    n = sys.getrecursionlimit() - depth - headroom

    def rec(k):
        if k <= 0:
            return fn()
        return rec(k - 1)
    try:
        return rec(max(0, n))
    except RecursionError:
        return ("exc", "RecursionError")


def run_op(ops_, name, value):
    """ops_[name](value), or - for 'lowstack<H>:<name>' - the same with H frames of head-room."""
    if name.startswith("lowstack"):
        h, base = name[len("lowstack"):].split(":", 1)
        return at_low_stack(lambda: ops_[base](value), int(h))
    return ops_[name](value)


def shape(x, SC):
    """Plain form + class names of nested synced nodes."""
    if isinstance(x, SC):
        d = x._data
        if isinstance(d, dict):
            return (type(x).__name__, {k: shape(v, SC) for k, v in d.items()})
        return (type(x).__name__, [shape(v, SC) for v in d])
    if isinstance(x, dict):
        return ("dict", {repr(k): shape(v, SC) for k, v in x.items()})
    if isinstance(x, (list, tuple)):
        return (type(x).__name__, [shape(v, SC) for v in x])
    if isinstance(x, float) and x != x:
        return ("float", "nan")
    if x is None or isinstance(x, (str, int, float, bool, bytes, complex)):
        return (type(x).__name__, repr(x))
    return (type(x).__name__, "<object>")   # no repr(): it may contain a memory address


def ops(ns):
    """name -> function(value, tmpdir_factory) executing one probe/warm-up operation and returning its outcome."""
    SC = ns.SyncedCollection
    cj, val = ns.cj, ns.validators
    from ..engines.seqsim import make_run_dir
    import os
    import shutil
    state = {"dir": None, "n": 0}

    def fn():
        if state["dir"] is None:
            state["dir"] = make_run_dir()
        state["n"] += 1
        return os.path.join(state["dir"], f"w{state['n']}.json")

    def cleanup():
        if state["dir"]:
            shutil.rmtree(state["dir"], ignore_errors=True)
            state["dir"] = None
    o = collections.OrderedDict()
    # a user-defined backend that only has a dict-like class (lists stay plain there, by design of _from_base)
    if "custom" not in state:
        class MemOnlyCollection(ns.SyncedCollection):
            _backend = "verif.memonly"

            def __init__(self, **kw):
                super().__init__(**kw)

            def _load_from_resource(self):
                return None

            def _save_to_resource(self):
                pass

        class MemOnlyDict(MemOnlyCollection, ns.SyncedDict):
            def __init__(self, data=None, parent=None, *a, **kw):
                super().__init__(data=data, parent=parent, *a, **kw)
        state["custom"] = MemOnlyDict
    MemOnlyDict = state["custom"]

    def custom_setitem(v):
        def f():
            d = MemOnlyDict()
            d["k"] = v
            d["l"] = [v]
            return shape(d, SC)
        return outcome_of(f)
    o["custom_backend.setitem"] = custom_setitem
    o["json_format_validator"] = lambda v: outcome_of(lambda: val.json_format_validator(v))
    o["require_string_key"] = lambda v: outcome_of(lambda: val.require_string_key(v))
    o["no_dot_in_key"] = lambda v: outcome_of(lambda: val.no_dot_in_key(v))
    o["json_attr_dict_validator"] = lambda v: outcome_of(lambda: cj.json_attr_dict_validator(v))
    o["dict_is_base_type"] = lambda v: outcome_of(lambda: ns.SyncedDict.is_base_type(v))
    o["list_is_base_type"] = lambda v: outcome_of(lambda: ns.SyncedList.is_base_type(v))
    for fam in ("JSON", "JSONAttr", "BufferedJSON", "MemoryBufferedJSONAttr"):
        D, Lc = ns.families[fam]["d"], ns.families[fam]["l"]

        def setitem(v, D=D):
            def f():
                d = D(filename=fn())
                d["k"] = v
                return shape(d, SC)
            return outcome_of(f)

        def update(v, D=D):
            def f():
                d = D(filename=fn())
                d["k"] = {"old": 1}
                d.update({"k": v, "j": [v]})
                return shape(d, SC)
            return outcome_of(f)

        def append(v, Lc=Lc):
            def f():
                l = Lc(filename=fn())
                l.append(v)
                l.extend([v])
                return shape(l, SC)
            return outcome_of(f)

        def reset(v, D=D, Lc=Lc):
            def f():
                d = D(filename=fn())
                r1 = outcome_of(lambda: (d.reset(v), shape(d, SC))[1])
                l = Lc(filename=fn())
                r2 = outcome_of(lambda: (l.reset(v), shape(l, SC))[1])
                return (r1, r2)
            return outcome_of(f)

        def ctor(v, D=D, Lc=Lc):
            def f():
                r1 = outcome_of(lambda: shape(D(filename=fn(), data=v), SC))
                r2 = outcome_of(lambda: shape(Lc(filename=fn(), data=v), SC))
                return (r1, r2)
            return outcome_of(f)

        def merge(v, D=D):
            # reload path: existing container merged with the new value (in-place _update)
            def f():
                d = D(filename=fn())
                d["k"] = {"a": [1]}
                d["k"] = v
                d.update(k=v)
                return shape(d, SC)
            return outcome_of(f)
        o[f"{fam}.setitem"] = setitem
        o[f"{fam}.update"] = update
        o[f"{fam}.append"] = append
        o[f"{fam}.reset"] = reset
        o[f"{fam}.ctor"] = ctor
        o[f"{fam}.merge"] = merge
    return o, cleanup
