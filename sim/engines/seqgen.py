"""Seeded generation of seqsim steps from the current world state (generate-as-you-go)."""
from ..core import model as M
from ..core.values import KEYS, deep, gen_scalar, gen_value, get_path, has_path, kind_of, all_paths, container_paths

IDENT_KEYS = ["a", "b", "c", "n", "l", "x", "y"]


def pick(rng, seq):
    return seq[rng.randrange(len(seq))]


def wpick(rng, table):
    """table: list of (weight, item)."""
    tot = sum(w for w, _ in table)
    x = rng.random() * tot
    for w, it in table:
        x -= w
        if x < 0:
            return it
    return table[-1][1]


def gen_key(rng, fresh, c, p_existing=0.6):
    if c and rng.random() < p_existing:
        return pick(rng, sorted(c))
    return pick(rng, KEYS) if rng.random() < 0.7 else fresh.key()


def gen_container_value(rng, fresh, depth):
    r = rng.random()
    if r < 0.45:
        return gen_value(rng, fresh, depth, "scalar")
    return gen_value(rng, fresh, depth, "dict" if r < 0.75 else "list")


def gen_dict_op(rng, w, c, depth=2, mut_weight=0.6, reads=None, muts=None):
    """Return (name, args) for a dict whose model value is c."""
    fresh = w.fresh
    muts = muts or M.DICT_MUT
    reads = reads or M.DICT_READ
    if rng.random() < mut_weight:
        name = pick(rng, muts)
    else:
        name = pick(rng, reads)
    if name == "setitem":
        return name, [gen_key(rng, fresh, c), gen_container_value(rng, fresh, depth)]
    if name in ("delitem", "getitem", "contains"):
        return name, [gen_key(rng, fresh, c, 0.8)]
    if name in ("get", "pop"):
        a = [gen_key(rng, fresh, c, 0.7)]
        if rng.random() < 0.4:
            a.append(gen_scalar(rng, fresh))
        return name, a
    if name == "setdefault":
        a = [gen_key(rng, fresh, c, 0.4)]
        if rng.random() < 0.8:
            a.append(gen_container_value(rng, fresh, depth))
        return name, a
    if name in ("update", "reset"):
        n = rng.randint(0, 3)
        new = {}
        for _ in range(n):
            new[gen_key(rng, fresh, c, 0.5)] = gen_container_value(rng, fresh, depth)
        if name == "reset" and c and rng.random() < 0.5:
            # keep some of the old entries (in-place merge branches)
            for k in sorted(c):
                if rng.random() < 0.5 and k not in new:
                    new[k] = deep(c[k])
        return name, [new]
    if name == "update_pairs":
        return name, [[[gen_key(rng, fresh, c, 0.5), gen_container_value(rng, fresh, depth)]
                       for _ in range(rng.randint(0, 3))]]
    if name == "update_kwargs":
        other = None if rng.random() < 0.5 else {gen_key(rng, fresh, c, 0.5): gen_container_value(rng, fresh, depth)}
        kw = {pick(rng, IDENT_KEYS): gen_container_value(rng, fresh, depth) for _ in range(rng.randint(1, 2))}
        return name, [other, kw]
    if name in ("eq", "ne"):
        r = rng.random()
        if r < 0.5:
            return name, [deep(c)]
        if r < 0.8:
            o = deep(c)
            o[gen_key(rng, fresh, c)] = gen_scalar(rng, fresh)
            return name, [o]
        return name, [gen_value(rng, fresh, 1)]
    return name, []


def gen_index(rng, n, p_bad=0.15):
    if n == 0 or rng.random() < p_bad:
        return pick(rng, [n, n + 1, -n - 1, -n - 2])
    return rng.randrange(-n, n)


def gen_list_op(rng, w, c, depth=2, mut_weight=0.6, reads=None, muts=None, slices=False):
    fresh = w.fresh
    muts = muts or M.LIST_MUT
    reads = reads or M.LIST_READ
    n = len(c)
    name = pick(rng, muts) if rng.random() < mut_weight else pick(rng, reads)
    if name in ("setitem", "delitem", "getitem"):
        if slices and rng.random() < 0.35:
            lo = rng.choice([None, 0, 1, -1, rng.randint(-n - 1, n + 1)])
            hi = rng.choice([None, n, rng.randint(-n - 1, n + 1)])
            stp = rng.choice([None, None, 1, 2, -1])
            key = {"$slice": [lo, hi, stp]}
            if name == "setitem":
                m = rng.randint(0, 3)
                return name, [key, [gen_container_value(rng, fresh, depth - 1) for _ in range(m)]]
            return name, [key]
        i = gen_index(rng, n)
        if name == "setitem":
            return name, [i, gen_container_value(rng, fresh, depth)]
        return name, [i]
    if name == "insert":
        return name, [rng.randint(-n - 1, n + 1), gen_container_value(rng, fresh, depth)]
    if name == "append":
        return name, [gen_container_value(rng, fresh, depth)]
    if name in ("extend", "iadd"):
        return name, [[gen_container_value(rng, fresh, depth - 1) for _ in range(rng.randint(0, 3))]]
    if name in ("remove", "contains", "index", "count"):
        if c and rng.random() < 0.75:
            return name, [deep(pick(rng, c))]
        return name, [gen_scalar(rng, fresh)]
    if name == "pop":
        if rng.random() < 0.5:
            return name, []
        return name, [gen_index(rng, n)]
    if name == "reset":
        new = [gen_container_value(rng, fresh, depth - 1) for _ in range(rng.randint(0, 3))]
        if c and rng.random() < 0.6:
            keep = rng.randint(0, n)
            new = deep(c[:keep]) + new
        return name, [new]
    if name in ("eq", "ne", "lt", "le", "gt", "ge"):
        r = rng.random()
        if r < 0.4:
            return name, [deep(c)]
        if r < 0.8:
            o = deep(c)
            if o and rng.random() < 0.5:
                o.pop()
            else:
                o.append(gen_scalar(rng, fresh, allow_special=False))
            return name, [o]
        return name, [[gen_scalar(rng, fresh, allow_special=False) for _ in range(rng.randint(0, 2))]]
    return name, []


def comparable(v):
    """Ordering comparisons of lists need mutually orderable elements; used to filter lt/le/gt/ge."""
    return all(isinstance(x, (int, float)) and not isinstance(x, bool) for x in v)


def attached_handles(w, rid=None, allow_removed=False):
    out = []
    for h in w.handles:
        if h is None:
            continue
        ob = w.objs[h.oid]
        if not ob.alive:
            continue
        if rid is not None and ob.rid != rid:
            continue
        if h.state == "attached" or (allow_removed and h.state == "removed"):
            r = w.res[ob.rid]
            if h.state == "attached" and (not has_path(r.model, h.path) or kind_of(get_path(r.model, h.path)) != h.kind):
                continue
            out.append(h)
    return out


def gen_op_step(rng, w, h, depth=2, mut_weight=0.6, slices=False, reads=None, muts=None, keep_p=0.3, attr_p=0.0):
    """An op step through handle h (must be attached)."""
    r = w.res[w.objs[h.oid].rid]
    if h.state == "removed" and getattr(h, "detached", None) is not None and has_path(h.detached[0], h.dpath) \
            and kind_of(get_path(h.detached[0], h.dpath)) == h.kind:
        c = get_path(h.detached[0], h.dpath)   # the removed value lives on as a detached object with a model of its own
    elif h.state == "removed":
        c = {} if h.kind == "dict" else []   # content unknown to the model: ops must not depend on it
        muts = ["setitem", "update", "setdefault", "clear", "reset"] if h.kind == "dict" else ["append", "extend", "insert", "clear", "reset", "iadd"]
    else:
        c = get_path(r.model, h.path)
    if h.kind == "dict":
        name, args = gen_dict_op(rng, w, c, depth, mut_weight, reads, muts)
    else:
        name, args = gen_list_op(rng, w, c, depth, mut_weight, reads, muts, slices)
        if name in ("lt", "le", "gt", "ge") and not (comparable(c) and comparable(args[0])):
            name = "eq"
    st = {"t": "op", "hid": h.hid, "name": name, "args": args}
    if name in ("getitem", "get", "setdefault") and rng.random() < keep_p:
        st["keep"] = True
    if attr_p and h.kind == "dict" and name in ("getitem", "setitem", "delitem") and rng.random() < attr_p:
        k = args[0]
        if isinstance(k, str) and k.isidentifier() and not k.startswith("_"):
            st["attr"] = True
    return st


def gen_navigate_step(rng, w, h):
    """A getitem that navigates into a child container and keeps it as a handle (or None)."""
    r = w.res[w.objs[h.oid].rid]
    c = get_path(r.model, h.path)
    if isinstance(c, dict):
        ks = [k for k in sorted(c) if isinstance(c[k], (dict, list))]
    else:
        ks = [i for i, v in enumerate(c) if isinstance(v, (dict, list))]
    if not ks:
        return None
    return {"t": "op", "hid": h.hid, "name": "getitem", "args": [pick(rng, ks)], "keep": True}


# -- outside writer edits ---------------------------------------------------------------------------------

def gen_outside_edit(rng, w, r, depth=2):
    """A targeted edit of the current backend document chosen to hit the (old kind, new kind) merge branches."""
    fresh = w.fresh
    doc = r.disk if r.disk is not None else ({} if r.kind == "dict" else [])
    paths = all_paths(doc)
    roll = rng.random()
    if not paths or roll < 0.15:
        return ["replace", gen_value(rng, fresh, depth + 1, r.kind, 4)]
    if roll < 0.3:
        # add a key / append an element to some container
        cps = container_paths(doc)
        cp = pick(rng, cps)
        c = get_path(doc, cp)
        if isinstance(c, dict):
            return ["set", cp + [gen_key(rng, fresh, c, 0.0)], gen_container_value(rng, fresh, depth)]
        return ["set", cp + [len(c)], gen_container_value(rng, fresh, depth)]
    p = pick(rng, paths)
    old = get_path(doc, p)
    if roll < 0.45:
        return ["del", p]
    # change the value at p: to null, scalar, same kind with other content, other container kind
    ok = kind_of(old)
    choice = rng.random()
    if choice < 0.2:
        new = None
    elif choice < 0.4:
        new = gen_scalar(rng, fresh)
    elif choice < 0.75 and ok != "scalar":
        new = gen_value(rng, fresh, depth, ok, 3)
        if ok == "dict" and old and rng.random() < 0.6:
            for k in sorted(old):
                if rng.random() < 0.6:
                    new.setdefault(k, deep(old[k]))
        if ok == "list" and old and rng.random() < 0.6:
            new = deep(old[:rng.randint(0, len(old))]) + new
    else:
        new = gen_value(rng, fresh, depth, "list" if ok == "dict" else "dict", 3)
    return ["set", p, new]
