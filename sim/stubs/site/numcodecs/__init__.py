"""Tiny stand-in for `numcodecs`: a JSON object codec with the encode/decode round trip zarr applies.
Used ONLY inside simulator processes."""
import json as _json


class JSON:
    codec_id = "json2"

    def encode(self, obj):
        # zarr's JSON codec: json.dumps of the item list; keys are coerced by json like the real one
        return _json.dumps(obj, ensure_ascii=True, sort_keys=False, separators=(",", ":")).encode()

    def decode(self, blob):
        return _json.loads(blob.decode())
