class BSONError(Exception):
    pass


class InvalidDocument(BSONError):
    pass
