"""Tiny stand-in for the `bson` package: only what synced_collections imports (bson.errors.InvalidDocument).
Used ONLY inside simulator processes (put on sys.path by sim.core.lib)."""
from . import errors  # noqa
