"""In-process stub stores for the Redis / MongoDB / Zarr backends (declared as stubs in evidence).

They exercise the library's backend glue (_save_to_resource/_load_from_resource/_to_base/validators),
not the third-party packages.  Every store counts writes and exposes `raw(key)` for the independent observer."""
import copy
import json


class StubRedis:
    def __init__(self):
        self.data = {}
        self.writes = 0
        self.reads = 0

    def get(self, key):
        self.reads += 1
        return self.data.get(key)

    def set(self, key, value):
        if not isinstance(value, (bytes, str, int, float)):
            raise TypeError("redis: invalid value type")
        self.writes += 1
        self.data[key] = value if isinstance(value, bytes) else str(value).encode()

    # observer / outside writer
    def raw(self, key):
        b = self.data.get(key)
        return None if b is None else json.loads(b)

    def outside_set(self, key, value):
        self.data[key] = json.dumps(value).encode()


def _bson_check(v):
    import bson
    if isinstance(v, dict):
        for k, x in v.items():
            if not isinstance(k, str):
                raise bson.errors.InvalidDocument(f"documents must have only string keys, key was {k!r}")
            _bson_check(x)
    elif isinstance(v, (list, tuple)):
        for x in v:
            _bson_check(x)
    elif v is None or isinstance(v, (str, int, float, bool)):
        return
    else:
        raise bson.errors.InvalidDocument(f"cannot encode object: {v!r}, of type: {type(v)}")


def _bson_copy(v):
    if isinstance(v, dict):
        return {k: _bson_copy(x) for k, x in v.items()}
    if isinstance(v, (list, tuple)):
        return [_bson_copy(x) for x in v]
    return v


class StubMongoCollection:
    """find_one(filter) / replace_one(filter, doc, upsert); documents deep-copied through a BSON-like check.
    Does NOT model BSON's 64-bit integer limit (declared in evidence)."""

    def __init__(self):
        self.docs = []
        self.writes = 0
        self.reads = 0

    def _match(self, doc, flt):
        return all(doc.get(k) == v for k, v in flt.items())

    def find_one(self, flt=None):
        self.reads += 1
        for d in self.docs:
            if self._match(d, flt or {}):
                return _bson_copy(d)
        return None

    def replace_one(self, flt, doc, upsert=False):
        _bson_check(doc)
        self.writes += 1
        for i, d in enumerate(self.docs):
            if self._match(d, flt):
                self.docs[i] = _bson_copy(doc)
                return
        if upsert:
            self.docs.append(_bson_copy(doc))

    def raw(self, uid):
        for d in self.docs:
            if self._match(d, uid):
                return copy.deepcopy(d["data"])
        return None

    def outside_set(self, uid, value):
        doc = {**uid, "data": copy.deepcopy(value)}
        for i, d in enumerate(self.docs):
            if self._match(d, uid):
                self.docs[i] = doc
                return
        self.docs.append(doc)


class _StubZarrArray:
    def __init__(self, group, codec, fill_value=0):
        self.group = group
        self.codec = codec
        self.blob = None
        self.fill_value = fill_value

    def __setitem__(self, i, v):
        assert i == 0
        if self.group is not None:
            self.group.writes += 1
        self.blob = self.codec.encode([v])

    def __getitem__(self, i):
        assert i == 0
        if self.blob is None:
            return self.fill_value  # zarr fill value of a freshly created object array
        return self.codec.decode(self.blob)[0]


class StubZarrGroup:
    def __init__(self):
        self.arrays = {}
        self.writes = 0
        self.reads = 0

    def require_dataset(self, name, overwrite=False, shape=None, dtype=None, object_codec=None, fill_value=0, **kwargs):
        # (like zarr's: further array-creation keywords - chunks, compressor, ... - are accepted)
        if overwrite or name not in self.arrays:
            self.writes += 1  # creating / replacing the dataset is a write to the store
            self.arrays[name] = _StubZarrArray(self, object_codec, fill_value)
        return self.arrays[name]

    def __getitem__(self, name):
        self.reads += 1
        if name not in self.arrays:
            raise KeyError(name)
        return self.arrays[name]

    def raw(self, name):
        a = self.arrays.get(name)
        return None if a is None or a.blob is None else a.codec.decode(a.blob)[0]

    def outside_set(self, name, value):
        import numcodecs
        a = _StubZarrArray(None, numcodecs.JSON())
        a[0] = value
        a.group = self
        self.arrays[name] = a
