"""CLI: python -m sim.main <PROPERTY|selftest-...> <quick|thorough> [--replay FILE]"""
import os
import sys


def main(argv):
    for st in (sys.stdout, sys.stderr):
        try:
            st.reconfigure(errors="backslashreplace")   # generated strings include lone surrogates
        except Exception:
            pass
    if len(argv) < 2:
        print(__doc__)
        return 2
    pid = argv[1]
    from sim.core import runner
    if pid.startswith("selftest"):
        from sim.selftest import run as st
        return st.main(argv[1:])
    tier = os.environ.get("VERIF_TIER") or (argv[2] if len(argv) > 2 and not argv[2].startswith("--") else "quick")
    replay = None
    if "--replay" in argv:
        replay = argv[argv.index("--replay") + 1]
        if not os.path.isabs(replay):
            replay = os.path.join(runner.VERIF, replay)
    try:
        return runner.main_check(pid.upper(), tier, replay)
    except runner.HarnessError as e:
        print(f"HARNESS-ERROR [{pid}] {e}", flush=True)
        return 2


if __name__ == "__main__":
    sys.exit(main(sys.argv))
