"""The I/O seams: builtins.open, os.replace/rename/stat/remove, json.dumps/loads, uuid.uuid4, plus an audit hook
as an independent witness of C-level file operations.  Pass-through unless a fault plan is armed; everything is
counted.  Only paths below the current run directory are ever touched."""
import builtins
import errno as _errno
import io
import json
import os
import random
import sys
import uuid

REAL = dict(open=builtins.open, replace=os.replace, rename=os.rename, stat=os.stat, remove=os.remove,
            dumps=json.dumps, loads=json.loads, uuid4=uuid.uuid4, utime=os.utime)

S = None  # the active Seams instance


class Seams:
    def __init__(self):
        self.root = None          # run directory (str) - only paths below it are instrumented
        self.calls = 0            # number of seam calls since arm()
        self.count_by = {}
        self.plan = None          # armed fault: dict(at=int, exc=..., only=set|None)
        self.fired = []           # faults that fired
        self.log = None           # optional list of seam events (for determinism digests)
        self.lib_active = False   # True while a library call executes (audit + counting scope)
        self.audit = []           # write-type audit events while lib_active
        self.uuid_rng = random.Random(0)
        self.on_event = None      # crashsim: callback(kind, info) before/after file operations
        self.write_hook = None    # crashsim: callback(path, fobj_so_far_len, data)
        self.on_hit = None        # threadsim: callback(kind) at every seam call (semantic phase of the running thread)

    # -- configuration ---------------------------------------------------------------------------
    def set_root(self, root):
        self.root = os.path.realpath(root) + os.sep if root else None

    def inside(self, path):
        if self.root is None:
            return False
        try:
            p = os.fspath(path)
        except TypeError:
            return False
        if isinstance(p, bytes):
            p = p.decode("utf-8", "replace")
        return os.path.abspath(p).startswith(self.root)

    def arm(self, plan=None):
        self.calls = 0
        self.plan = plan

    def disarm(self):
        self.plan = None

    def seed_uuid(self, seed):
        self.uuid_rng = random.Random(seed)

    # -- the single choke point ----------------------------------------------------------------
    def hit(self, kind, info=None):
        """Called at every seam call made by the library. May raise the armed fault."""
        if not self.lib_active:
            return
        if self.on_hit is not None:
            self.on_hit(kind)
        idx = self.calls
        self.calls += 1
        self.count_by[kind] = self.count_by.get(kind, 0) + 1
        if self.log is not None:
            self.log.append((kind, info))
        p = self.plan
        if p is not None and p.get("only") is not None:
            # "the at-th call among the listed kinds"
            if kind not in p["only"]:
                return
            idx = p.get("_seen", 0)
            p["_seen"] = idx + 1
        if p is not None and p["at"] == idx:
            self.plan = None
            self.fired.append((kind, idx, p["exc"]))
            raise make_exc(p["exc"], kind, info)


def make_exc(spec, kind, info):
    name = spec[0]
    if name == "OSError":
        code = getattr(_errno, spec[1])
        return OSError(code, os.strerror(code), info if isinstance(info, str) else None)
    if name == "TypeError":
        return TypeError("injected encoder failure")
    if name == "ValueError":
        return ValueError("injected encoder failure")
    if name == "RecursionError":
        return RecursionError("injected")
    if name == "MemoryError":
        return MemoryError("injected")
    if name == "KeyboardInterrupt":
        return KeyboardInterrupt("injected (a signal handler / cancellation raising a non-Exception BaseException)")
    raise AssertionError(spec)


class FileWrap:
    """File object handed to the library for files inside the run directory."""

    def __init__(self, f, path, mode, s):
        self._f, self._path, self._mode, self._s = f, path, mode, s
        self._written = 0

    def read(self, *a):
        self._s.hit("read", self._path)
        return self._f.read(*a)

    def write(self, data):
        self._s.hit("write", self._path)
        hook = self._s.write_hook
        if hook is not None:
            hook(self._path, self._f, data)
        n = self._f.write(data)
        self._written += len(data)
        return n

    def close(self):
        if not self._f.closed:
            ev = self._s.on_event
            if ev is not None:
                ev("pre-close", self._path)
            try:
                self._s.hit("close", self._path)
            finally:
                self._f.close()
            if ev is not None:
                ev("post-close", self._path)

    def flush(self):
        return self._f.flush()

    def fileno(self):
        return self._f.fileno()

    def __enter__(self):
        return self

    def __exit__(self, *exc):
        self.close()
        return False

    def __iter__(self):
        return iter(self._f)

    def __getattr__(self, name):
        return getattr(self._f, name)


def _open(file, mode="r", *a, **kw):
    s = S
    if s is None or not s.lib_active or not s.inside(file):
        return REAL["open"](file, mode, *a, **kw)
    ev = s.on_event
    if ev is not None:
        ev("pre-open", (str(file), mode))
    s.hit("open", str(file))
    f = REAL["open"](file, mode, *a, **kw)
    if ev is not None:
        ev("post-open", (str(file), mode))
    return FileWrap(f, str(file), mode, s)


def _wrap2(name):
    real = REAL[name]

    def w(src, dst, *a, **kw):
        s = S
        if s is None or not s.lib_active or not (s.inside(src) or s.inside(dst)):
            return real(src, dst, *a, **kw)
        ev = s.on_event
        if ev is not None:
            ev("pre-" + name, (str(src), str(dst)))
        s.hit(name, str(dst))
        r = real(src, dst, *a, **kw)
        if ev is not None:
            ev("post-" + name, (str(src), str(dst)))
        return r
    w.__name__ = name
    return w


def _wrap1(name):
    real = REAL[name]

    def w(path, *a, **kw):
        s = S
        if s is None or not s.lib_active or not s.inside(path):
            return real(path, *a, **kw)
        ev = s.on_event
        if ev is not None:
            ev("pre-" + name, str(path))
        s.hit(name, str(path))
        r = real(path, *a, **kw)
        if ev is not None:
            ev("post-" + name, str(path))
        return r
    w.__name__ = name
    return w


def _dumps(*a, **kw):
    s = S
    if s is not None and s.lib_active:
        s.hit("dumps", None)
    return REAL["dumps"](*a, **kw)


def _loads(*a, **kw):
    s = S
    if s is not None and s.lib_active:
        s.hit("loads", None)
    return REAL["loads"](*a, **kw)


def _uuid4():
    s = S
    if s is None:
        return REAL["uuid4"]()
    return uuid.UUID(int=s.uuid_rng.getrandbits(128), version=4)


_WRITE_FLAGS = os.O_WRONLY | os.O_RDWR | os.O_CREAT | os.O_TRUNC | os.O_APPEND
_AUDIT_INSTALLED = [False]


def _audit(event, args):
    s = S
    if s is None or not s.lib_active:
        return
    try:
        if event == "open":
            path, mode, flags = args
            if isinstance(path, (str, bytes)) and isinstance(flags, int) and (flags & _WRITE_FLAGS) and s.inside(path):
                s.audit.append(("open-w", os.fspath(path)))
        elif event in ("os.rename", "os.link", "os.symlink"):
            if s.inside(args[0]) or s.inside(args[1]):
                s.audit.append((event, os.fspath(args[0]), os.fspath(args[1])))
        elif event in ("os.remove", "os.truncate", "os.utime", "os.mkdir", "os.rmdir", "os.chmod"):
            if isinstance(args[0], (str, bytes)) and s.inside(args[0]):
                s.audit.append((event, os.fspath(args[0])))
    except Exception:
        pass


def install():
    """Install the wrappers process-wide (idempotent). Returns the Seams instance."""
    global S
    if S is None:
        S = Seams()
        builtins.open = _open
        io.open = _open
        os.replace = _wrap2("replace")
        os.rename = _wrap2("rename")
        os.stat = _wrap1("stat")
        os.remove = _wrap1("remove")
        json.dumps = _dumps
        json.loads = _loads
        uuid.uuid4 = _uuid4
        if not _AUDIT_INSTALLED[0]:
            sys.addaudithook(_audit)
            _AUDIT_INSTALLED[0] = True
    return S


def reset():
    """Fresh counters for a new run (keeps wrappers installed)."""
    s = install()
    s.root = None
    s.calls = 0
    s.count_by = {}
    s.plan = None
    s.fired = []
    s.log = None
    s.lib_active = False
    s.audit = []
    s.on_event = None
    s.write_hook = None
    s.on_hit = None
    s.uuid_rng = random.Random(0)
    return s
