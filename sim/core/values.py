"""JSON value generation, strict comparison, conversion of library objects to plain data."""
import hashlib
import json
import random


def stream(*parts):
    """Independent PRNG stream derived from the seed and a path of labels (one integer decides everything)."""
    h = hashlib.sha256("/".join(str(p) for p in parts).encode()).digest()
    return random.Random(int.from_bytes(h[:8], "big"))


class Fresh:
    """Source of unique scalars: every written scalar is attributable to one write, and no two generated
    scalars are ==-equal with different JSON types (see DESIGN §2.3)."""

    def __init__(self):
        self.n = 1
        self.pool = []   # scalars handed out earlier; re-using one is type-consistent (same value, same type)

    def _rec(self, v):
        self.pool.append(v)
        if len(self.pool) > 6:
            del self.pool[0]
        return v

    def int(self):
        self.n += 1
        return self._rec(self.n)

    def str(self):
        self.n += 1
        n = self.n
        if n % 11 == 0:
            # a lone surrogate (what os.fsdecode() returns for a non-UTF-8 file name): a legal Python str that the JSON
            # encoder writes as an escape; it cannot be encoded as UTF-8 text
            return self._rec(f"s{n}\udc80x")
        if n % 11 == 5:
            return self._rec(f"s{n}\u00e9\u4e2d\U0001f600\n\"\\\u0000")   # accents, CJK, astral plane, escapes, NUL
        return self._rec(f"s{n}")

    def float(self):
        self.n += 1
        return self._rec(self.n + 0.5)

    def key(self):
        self.n += 1
        return f"k{self.n}"


KEYS = ["a", "b", "c", "n", "l", "x", "y"]


def gen_scalar(rng, fresh, allow_special=True):
    r = rng.random()
    if allow_special and r < 0.12:
        return rng.choice([None, True, False])
    if fresh.pool and r < 0.3:
        return fresh.pool[rng.randrange(len(fresh.pool))]
    if r < 0.55:
        return fresh.int()
    if r < 0.8:
        return fresh.str()
    return fresh.float()


def gen_value(rng, fresh, depth=2, kind=None, max_len=3):
    """Random JSON value. kind in (None, 'dict', 'list', 'scalar')."""
    if kind is None:
        r = rng.random()
        if depth <= 0 or r < 0.5:
            kind = "scalar"
        elif r < 0.75:
            kind = "dict"
        else:
            kind = "list"
    if kind == "scalar":
        return gen_scalar(rng, fresh)
    n = rng.randint(0, max_len)
    if kind == "dict":
        out = {}
        for _ in range(n):
            k = rng.choice(KEYS) if rng.random() < 0.7 else fresh.key()
            out[k] = gen_value(rng, fresh, depth - 1, None, max_len)
        return out
    return [gen_value(rng, fresh, depth - 1, None, max_len) for _ in range(n)]


def kind_of(v):
    if isinstance(v, dict):
        return "dict"
    if isinstance(v, list):
        return "list"
    return "scalar"


def same(a, b):
    """Type-strict structural equality (True != 1 != 1.0); dict order ignored."""
    if type(a) is not type(b):
        return False
    if isinstance(a, dict):
        if len(a) != len(b):
            return False
        for k, v in a.items():
            if k not in b or type(k) is not str and not _samekey(k, b):
                return False
            if not same(v, b[k]):
                return False
        return True
    if isinstance(a, (list, tuple)):
        return len(a) == len(b) and all(same(x, y) for x, y in zip(a, b))
    if isinstance(a, float):
        return repr(a) == repr(b)
    return a == b


def _samekey(k, b):
    for k2 in b:
        if k2 == k and type(k2) is type(k):
            return True
    return False


def is_plain_json(v):
    """Only dict(str keys)/list/str/int/float/bool/None, exact built-in types."""
    t = type(v)
    if t is dict:
        return all(type(k) is str and is_plain_json(x) for k, x in v.items())
    if t is list:
        return all(is_plain_json(x) for x in v)
    return v is None or t in (str, int, float, bool)


def deep(v):
    """Deep copy of plain JSON data (faster than copy.deepcopy)."""
    if isinstance(v, dict):
        return {k: deep(x) for k, x in v.items()}
    if isinstance(v, list):
        return [deep(x) for x in v]
    return v


def get_path(root, path):
    cur = root
    for p in path:
        cur = cur[p]
    return cur


def has_path(root, path):
    cur = root
    for p in path:
        try:
            if isinstance(cur, dict):
                if p not in cur:
                    return False
                cur = cur[p]
            elif isinstance(cur, list):
                if not isinstance(p, int) or not (0 <= p < len(cur)):
                    return False
                cur = cur[p]
            else:
                return False
        except Exception:
            return False
    return True


def container_paths(root, prefix=(), out=None, max_depth=6):
    """All paths to containers inside root (including root)."""
    if out is None:
        out = []
    out.append(list(prefix))
    if len(prefix) >= max_depth:
        return out
    if isinstance(root, dict):
        for k, v in root.items():
            if isinstance(v, (dict, list)):
                container_paths(v, prefix + (k,), out, max_depth)
    elif isinstance(root, list):
        for i, v in enumerate(root):
            if isinstance(v, (dict, list)):
                container_paths(v, prefix + (i,), out, max_depth)
    return out


def all_paths(root, prefix=(), out=None):
    """All paths to every node below root (excluding root itself)."""
    if out is None:
        out = []
    if isinstance(root, dict):
        for k, v in root.items():
            out.append(list(prefix + (k,)))
            all_paths(v, prefix + (k,), out)
    elif isinstance(root, list):
        for i, v in enumerate(root):
            out.append(list(prefix + (i,)))
            all_paths(v, prefix + (i,), out)
    return out


def plain(x, SC, _depth=0):
    """Convert a library result to plain data WITHOUT going through the public API (no reload): walks _data.
    Anything that is not a synced node is returned as is (after converting containers recursively)."""
    if _depth > 80:
        return "<cyclic or deeper than 80 levels>"   # a cycle in the tree (never equal to model data)
    if isinstance(x, SC):
        d = x._data
        if isinstance(d, dict):
            return {k: plain(v, SC, _depth + 1) for k, v in d.items()}
        return [plain(v, SC, _depth + 1) for v in d]
    if type(x) is dict:
        return {k: plain(v, SC, _depth + 1) for k, v in x.items()}
    if type(x) is list:
        return [plain(v, SC, _depth + 1) for v in x]
    if type(x) is tuple:
        return tuple(plain(v, SC, _depth + 1) for v in x)
    return x


def contains_synced(x, SC):
    if isinstance(x, SC):
        return True
    if isinstance(x, dict):
        return any(contains_synced(v, SC) for v in x.values())
    if isinstance(x, (list, tuple)):
        return any(contains_synced(v, SC) for v in x)
    return False


def digest(obj):
    return hashlib.sha256(json.dumps(obj, sort_keys=True, default=repr).encode()).hexdigest()[:16]


def jsonable(v):
    """Make a value safe for json.dump in replay/evidence files (tuples, special objects -> tagged)."""
    if isinstance(v, dict):
        return {str(k) if isinstance(k, str) else f"<{type(k).__name__}:{k!r}>": jsonable(x) for k, x in v.items()}
    if isinstance(v, (list, tuple)):
        return [jsonable(x) for x in v]
    if v is None or isinstance(v, (str, int, float, bool)):
        return v
    return f"<{type(v).__name__}>"
