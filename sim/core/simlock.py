"""Simulated re-entrant locks.

The library creates every lock through the module-level name ``RLock`` that it
imported with ``from threading import RLock``.  While the library is imported
(sim.core.lib) ``threading.RLock`` is this class, so all of *its* locks are
simulated and nobody else's.

Identity of the caller is not the OS thread but the simulator's notion of
"current simulated thread" (CUR[0]); with a scheduler installed (threadsim) the
scheduler owns blocking, otherwise (sequential engines) a lock owned by another
simulated thread raises WouldBlock - which is how a leaked lock is made
visible to a second simulated caller without starting a real thread.
"""

REGISTRY = []          # every SimRLock created since the last reset (strong refs; cleared per run)
CUR = ["main"]         # id of the simulated thread that is currently executing
SCHED = [None]         # threadsim scheduler or None
_NEXT = [0]


class WouldBlock(BaseException):
    """A sequential caller tried to take a lock held by another simulated thread."""

    def __init__(self, lock):
        super().__init__(f"lock #{lock.lid} is held by {lock.owner!r}")
        self.lock = lock


class SimRLock:
    def __init__(self):
        _NEXT[0] += 1
        self.lid = _NEXT[0]
        self.owner = None
        self.count = 0
        self.label = None
        REGISTRY.append(self)

    # -- lock protocol ------------------------------------------------------
    def acquire(self, blocking=True, timeout=-1):
        sched = SCHED[0]
        if sched is not None:
            return sched.lock_acquire(self, blocking)
        me = CUR[0]
        if self.owner is None or self.owner == me:
            self.owner = me
            self.count += 1
            return True
        if not blocking:
            return False
        raise WouldBlock(self)

    def release(self):
        me = CUR[0]
        sched = SCHED[0]
        if sched is not None and sched.abort:
            return  # the run is being torn down (deadlock / step cap): unwinding threads must not fail here
        if self.owner != me or self.count <= 0:
            raise RuntimeError("cannot release un-acquired lock")
        self.count -= 1
        if self.count == 0:
            self.owner = None
            sched = SCHED[0]
            if sched is not None:
                sched.lock_released(self)

    def __enter__(self):
        self.acquire()
        return True

    def __exit__(self, *exc):
        self.release()

    # private protocol used by threading.Condition etc. (never expected, but harmless)
    def _is_owned(self):
        return self.owner == CUR[0]

    def _release_save(self):
        st = (self.count, self.owner)
        self.count = 0
        self.owner = None
        return st

    def _acquire_restore(self, st):
        self.count, self.owner = st

    def _at_fork_reinit(self):
        self.owner = None
        self.count = 0

    def locked(self):
        return self.owner is not None

    def __repr__(self):
        return f"<SimRLock #{self.lid} {self.label or ''} owner={self.owner!r} count={self.count}>"


def held():
    """All locks currently held: list of (lock, owner, count)."""
    return [(l, l.owner, l.count) for l in REGISTRY if l.owner is not None]


def held_by(tid):
    return [l for l in REGISTRY if l.owner == tid]


def reset_registry():
    del REGISTRY[:]
    _NEXT[0] = 0
    CUR[0] = "main"
    SCHED[0] = None
