"""Executable reference model: operations on built-in dict/list with the documented deviations of C03,
plus the matching invocation on a library node.  An operation is (name, args) with JSON-encodable args
(special values are tagged dicts, see dec())."""
import ast

from .values import deep, plain, same

# ---------------------------------------------------------------------------------------------------
# argument encoding

class Opaque:
    """A value that is not JSON-representable (object())."""

    def __repr__(self):
        return "<Opaque>"


def dec(a, handles=None):
    """Decode a JSON-encoded argument into the Python object handed to the library / the model."""
    if isinstance(a, dict):
        if len(a) == 1:
            (k, v), = a.items()
            if k == "$slice":
                return slice(*v)
            if k == "$tuple":
                return tuple(dec(x, handles) for x in v)
            if k == "$bytes":
                return bytes(v)
            if k == "$range":
                return range(*v)
            if k == "$obj":
                return {"object": Opaque(), "set": {1, 2}, "complex": 1 + 2j, "frozenset": frozenset([1]),
                        "bytearray_key": None}.get(v, Opaque())
            if k == "$intkeydict":
                return {dec(kk, handles) if not isinstance(kk, str) else int(kk): dec(x, handles) for kk, x in v.items()}
            if k == "$keydict":  # list of [key, value] pairs with arbitrary (tagged) keys
                return {dec(kk, handles): dec(x, handles) for kk, x in v}
            if k == "$float":
                return float(v)
            if k == "$none":
                return None
            if k == "$handle":
                return handles[v] if handles is not None else None
            if k == "$gen":  # a one-shot iterator over the values
                return iter([dec(x, handles) for x in v])
        return {k: dec(v, handles) for k, v in a.items()}
    if isinstance(a, list):
        return [dec(x, handles) for x in a]
    return a


def norm(v):
    """What the collection stores for an accepted argument: tuples/bytes/ranges/other sequences become lists."""
    if isinstance(v, dict):
        return {k: norm(x) for k, x in v.items()}
    if isinstance(v, (list, tuple, range)):
        return [norm(x) for x in v]
    if isinstance(v, (bytes, bytearray)):
        return list(v)
    return v


# ---------------------------------------------------------------------------------------------------
# op tables

DICT_MUT = ["setitem", "delitem", "pop", "popitem", "clear", "update", "update_pairs", "update_kwargs",
            "setdefault", "reset"]
DICT_READ = ["getitem", "get", "contains", "len", "iter", "list", "keys", "values", "items", "call", "eq", "ne", "repr",
             "str"]   # ("getattr" is generated explicitly for attribute-access families)
LIST_MUT = ["setitem", "delitem", "insert", "append", "extend", "iadd", "remove", "pop", "reverse", "clear",
            "reset"]
LIST_READ = ["getitem", "len", "iter", "list", "reversed", "contains", "index", "count", "call", "eq", "ne", "lt", "le",
             "gt", "ge", "repr", "str"]


def is_mutator(kind, name):
    return name in (DICT_MUT if kind == "dict" else LIST_MUT)


class Raised:
    def __init__(self, exc):
        self.exc = exc
        self.cls = type(exc)

    def __repr__(self):
        return f"Raised({self.cls.__name__}: {self.exc})"


def _cmp_operand(x):
    return x


def model_apply(c, name, args):
    """Apply op to the plain container c (in place). Returns result (plain) or Raised."""
    try:
        return _model_apply(c, name, args)
    except Exception as e:  # noqa
        return Raised(e)


def _model_apply(c, name, a):
    if isinstance(c, dict):
        if name == "setitem":
            c[a[0]] = norm(deep(a[1]))
            return None
        if name == "delitem":
            del c[a[0]]
            return None
        if name == "getitem":
            return c[a[0]]
        if name == "get":
            return c.get(*a)
        if name == "getattr":          # attribute syntax: missing key -> AttributeError; with a default -> the default
            if a[0] in c:
                return c[a[0]]
            if len(a) > 1:
                return a[1]
            raise AttributeError(a[0])
        if name == "contains":
            return a[0] in c
        if name == "len":
            return len(c)
        if name in ("iter", "list", "keys"):
            return list(c)
        if name == "values":
            return list(c.values())
        if name == "items":
            return [list(kv) for kv in c.items()]
        if name == "call":
            return deep(c)
        if name == "eq":
            return c == a[0]
        if name == "ne":
            return c != a[0]
        if name == "pop":
            if len(a) == 1:
                return c.pop(a[0], None)  # documented deviation: default None
            return c.pop(a[0], a[1])
        if name == "popitem":
            if not c:
                raise KeyError("popitem(): dictionary is empty")
            return "$any"  # handled by the caller: any current item
        if name == "clear":
            c.clear()
            return None
        if name == "update":
            new = dict(a[0]) if len(a) else {}
            c.update(norm(deep(new)))
            return None
        if name == "update_pairs":
            new = dict(a[0])
            c.update(norm(deep(new)))
            return None
        if name == "update_kwargs":
            other = dict(a[0]) if a[0] is not None else {}
            c.update(norm(deep(other)))
            c.update(norm(deep(a[1])))
            return None
        if name == "setdefault":
            hash(a[0])
            if a[0] in c:
                return c[a[0]]
            c[a[0]] = norm(deep(a[1] if len(a) > 1 else None))
            return c[a[0]]
        if name == "reset":
            if not isinstance(a[0], dict):
                raise ValueError("reset needs a mapping")
            new = norm(deep(a[0]))
            c.clear()
            c.update(new)
            return None
        if name in ("repr", "str"):
            return deep(c)
    else:
        if name == "setitem":
            v = a[1]
            if isinstance(a[0], slice):
                v = norm(deep(list(v))) if isinstance(v, (list, tuple, range, bytes)) else v
                c[a[0]] = v
            else:
                c[a[0]] = norm(deep(v))
            return None
        if name == "delitem":
            del c[a[0]]
            return None
        if name == "getitem":
            return c[a[0]]
        if name == "len":
            return len(c)
        if name in ("iter", "list"):
            return list(c)
        if name == "reversed":
            return list(reversed(c))
        if name == "contains":
            return norm(a[0]) in c
        if name == "index":
            return c.index(norm(a[0]), *a[1:])
        if name == "count":
            return c.count(norm(a[0]))
        if name == "call":
            return deep(c)
        if name in ("eq", "ne", "lt", "le", "gt", "ge"):
            o = a[0]
            import operator
            return getattr(operator, name)(c, o)
        if name == "insert":
            c.insert(a[0], norm(deep(a[1])))
            return None
        if name == "append":
            c.append(norm(deep(a[0])))
            return None
        if name in ("extend", "iadd"):
            c.extend(norm(deep(list(a[0]))))
            return None
        if name == "remove":
            c.remove(norm(a[0]))
            return None
        if name == "pop":
            return c.pop(*a)
        if name == "reverse":
            c.reverse()
            return None
        if name == "clear":
            c.clear()
            return None
        if name == "reset":
            if isinstance(a[0], (str, dict)) or not isinstance(a[0], (list, tuple, range, bytes)):
                raise ValueError("reset needs a non-string sequence")
            c[:] = norm(deep(list(a[0])))
            return None
        if name in ("repr", "str"):
            return deep(c)
    raise NotImplementedError((type(c).__name__, name))


def lib_apply(node, name, a, attr=False):
    """Invoke the op on a library node through the PUBLIC API. Returns raw result or Raised.
    attr=True uses attribute syntax for getitem/setitem/delitem (attribute-access families)."""
    try:
        return _lib_apply(node, name, a, attr)
    except Exception as e:  # noqa
        return Raised(e)


def _lib_apply(n, name, a, attr):
    if name == "setitem":
        if attr:
            setattr(n, a[0], a[1])
        else:
            n[a[0]] = a[1]
        return None
    if name == "delitem":
        if attr:
            delattr(n, a[0])
        else:
            del n[a[0]]
        return None
    if name == "getitem":
        return getattr(n, a[0]) if attr else n[a[0]]
    if name == "get":
        return n.get(*a)
    if name == "getattr":
        return getattr(n, *a)
    if name == "contains":
        return a[0] in n
    if name == "len":
        return len(n)
    if name == "iter":
        return list(iter(n))
    if name == "list":
        return list(n)       # iterator + length hint: calls __iter__ AND __len__ (two loads)
    if name == "keys":
        return list(n.keys())
    if name == "values":
        return n.values()
    if name == "items":
        return n.items()
    if name == "call":
        return n()
    if name == "eq":
        return n == a[0]
    if name == "ne":
        return n != a[0]
    if name == "lt":
        return n < a[0]
    if name == "le":
        return n <= a[0]
    if name == "gt":
        return n > a[0]
    if name == "ge":
        return n >= a[0]
    if name == "pop":
        return n.pop(*a)
    if name == "popitem":
        return n.popitem()
    if name == "clear":
        return n.clear()
    if name == "update":
        return n.update(*a)
    if name == "update_pairs":
        return n.update(a[0])
    if name == "update_kwargs":
        return n.update(a[0], **a[1]) if a[0] is not None else n.update(**a[1])
    if name == "setdefault":
        return n.setdefault(*a)
    if name == "reset":
        return n.reset(a[0])
    if name == "repr":
        return repr(n)
    if name == "str":
        return str(n)
    if name == "reversed":
        return list(reversed(n))
    if name == "index":
        return n.index(*a)
    if name == "count":
        return n.count(a[0])
    if name == "insert":
        return n.insert(a[0], a[1])
    if name == "append":
        return n.append(a[0])
    if name == "extend":
        return n.extend(a[0])
    if name == "iadd":
        n += a[0]
        return None
    if name == "remove":
        return n.remove(a[0])
    if name == "reverse":
        return n.reverse()
    raise NotImplementedError(name)


def result_plain(name, res, SC):
    """Normalise a library result for comparison with the model's result."""
    if isinstance(res, Raised):
        return res
    if name in ("values",):
        return [plain(v, SC) for v in list(res)]
    if name in ("items",):
        return [[k, plain(v, SC)] for k, v in list(res)]
    if name in ("repr", "str"):
        try:
            return ast.literal_eval(res)
        except Exception:
            return ("unparsable-repr", res)
    if name == "popitem" and isinstance(res, tuple):
        return [res[0], plain(res[1], SC)]
    return plain(res, SC)


def _sort_key(x):
    import json
    try:
        return json.dumps(x, sort_keys=True, default=repr)
    except Exception:
        return repr(x)


def results_agree(name, kind, lib_res, mod_res):
    """Compare normalised library result with model result. Returns None if they agree, else a message."""
    if isinstance(mod_res, Raised) or isinstance(lib_res, Raised):
        if isinstance(mod_res, Raised) and isinstance(lib_res, Raised):
            if isinstance(lib_res.exc, mod_res.cls):
                return None
            return f"raised {lib_res.cls.__name__}, built-in raises {mod_res.cls.__name__}"
        if isinstance(lib_res, Raised):
            return f"raised {lib_res.cls.__name__}({lib_res.exc}) where the built-in returns {mod_res!r}"
        return f"returned {lib_res!r} where the built-in raises {mod_res.cls.__name__}"
    if kind == "dict" and name in ("iter", "list", "keys", "values", "items"):
        a = sorted(lib_res, key=_sort_key) if isinstance(lib_res, list) else lib_res
        b = sorted(mod_res, key=_sort_key)
        if same(a, b):
            return None
        return f"returned {lib_res!r}, built-in gives {mod_res!r}"
    if same(lib_res, mod_res):
        return None
    return f"returned {lib_res!r}, built-in gives {mod_res!r}"


# ---------------------------------------------------------------------------------------------------
# entry points: what the public API of the classes offers vs. what the generators know (reported in every evidence file,
# so that a newly added public method cannot silently stay outside the checks)

_API_TO_OP = {"__call__": "call", "__contains__": "contains", "__delitem__": "delitem", "__eq__": "eq", "__ne__": "ne",
              "__getitem__": "getitem", "__iter__": "iter", "__len__": "len", "__repr__": "repr", "__str__": "str",
              "__setitem__": "setitem", "__lt__": "lt", "__le__": "le", "__gt__": "gt", "__ge__": "ge", "__iadd__": "iadd",
              "__reversed__": "reversed", "__getattr__": "getattr", "__setattr__": "setitem", "__delattr__": "delitem"}
# construction / configuration / context API: exercised by dedicated step kinds, not by op()
_BY_STEP = {"__init__": "new_obj (constructor, data=)", "enable_multithreading": "threading", "disable_multithreading": "threading",
            "buffered": "enter/exit obj", "buffer_backend": "enter/exit backend", "set_buffer_capacity": "setcap",
            "get_buffer_capacity": "oracle", "get_current_buffer_size": "oracle", "backend_is_buffered": "oracle",
            "filename": "rebind", "is_base_type": "(classification helper, C19 probes)", "registry": "-",
            # read-only accessors of constructor arguments of the stub-store backends
            "client": "-", "key": "-", "collection": "-", "uid": "-", "group": "-", "name": "-", "codec": "-"}
_IGNORED = {"__init_subclass__", "__class_getitem__", "__subclasshook__", "__hash__", "__dir__", "__abstractmethods__"}


def uncovered_entry_points(ns):
    """Public callables/properties of every concrete collection class that no generator or step kind addresses."""
    out = set()
    ops = {"dict": set(DICT_MUT + DICT_READ) | {"getattr"}, "list": set(LIST_MUT + LIST_READ)}
    seen = set()
    for fam in getattr(ns, "families", {}).values():
        for k, kind in (("d", "dict"), ("l", "list")):
            cls = fam.get(k)
            if cls is None or cls in seen:
                continue
            seen.add(cls)
            for klass in cls.__mro__:
                if klass is object or klass.__module__.startswith(("collections", "abc", "typing")):
                    continue
                for n, v in vars(klass).items():
                    if not (callable(v) or isinstance(v, (classmethod, staticmethod, property))):
                        continue
                    if n in _IGNORED or n in _BY_STEP:
                        continue
                    if n.startswith("_") and not (n.startswith("__") and n.endswith("__")):
                        continue
                    op = _API_TO_OP.get(n, n)
                    if op not in ops[kind]:
                        out.add(f"{cls.__name__}.{n}")
    return sorted(out)
