"""Shared driver: shards seeded runs over forked workers, aggregates coverage, minimises and confirms
violations in a fresh interpreter, applies the known-findings policy, writes evidence, sets the exit code.

Exit codes: 0 held (possibly with KNOWN-FINDING lines), 1 confirmed unlisted violation(s), 2 harness error."""
import faulthandler
import json
import multiprocessing as mp
import os
import pickle
import select
import signal
import subprocess
import sys
import time
import traceback
from concurrent.futures import ProcessPoolExecutor, as_completed

VERIF = os.path.dirname(os.path.dirname(os.path.dirname(os.path.abspath(__file__))))
NWORKERS = int(os.environ.get("VERIF_WORKERS", "16"))


class HarnessError(Exception):
    pass


def log(*a):
    print(*a, flush=True)


# ---------------------------------------------------------------------------------------------------------
# isolated execution of one run in a forked child (used by engines whose schedule depends on process state)

def run_isolated(fn, args, timeout=60):
    """Run fn(*args) in a forked child; return its result. Raises HarnessError on crash/timeout."""
    r, w = os.pipe()
    pid = os.fork()
    if pid == 0:
        code = 0
        try:
            os.close(r)
            # (no faulthandler timer here: re-arming it in a forked child whose parent had one armed deadlocks;
            #  the parent enforces the deadline with SIGKILL)
            try:
                res = ("ok", fn(*args))
            except BaseException as e:  # noqa
                res = ("err", "".join(traceback.format_exception(type(e), e, e.__traceback__)))
            data = pickle.dumps(res)
            with os.fdopen(w, "wb") as f:
                f.write(data)
        except BaseException:
            code = 3
        finally:
            os._exit(code)
    os.close(w)
    chunks = []
    deadline = time.time() + timeout
    with os.fdopen(r, "rb") as f:
        while True:
            left = deadline - time.time()
            if left <= 0:
                os.kill(pid, signal.SIGKILL)
                os.waitpid(pid, 0)
                raise HarnessError(f"isolated run timed out after {timeout}s: {args!r}")
            rd, _, _ = select.select([f], [], [], min(left, 1.0))
            if rd:
                b = f.read(1 << 16)
                if not b:
                    break
                chunks.append(b)
    os.waitpid(pid, 0)
    if not chunks:
        raise HarnessError(f"isolated run died without result: {args!r}")
    kind, val = pickle.loads(b"".join(chunks))
    if kind == "err":
        raise HarnessError("isolated run raised:\n" + val)
    return val


# ---------------------------------------------------------------------------------------------------------

def _load_prop(pid):
    import importlib
    return importlib.import_module(f"sim.props.{pid.lower()}")


def _work(pid, seed, tier, indices, mode):
    """Worker: execute a chunk of runs.  The pool worker itself is a TEMPLATE (library imported, no operation executed);
    batched properties run every chunk in a forked child of it, so the process history of a run is exactly the earlier
    runs of its chunk - which makes a violation that depends on that history replayable (see batch replay below)."""
    prop = _load_prop(pid)
    from . import lib as _lib
    _lib.load(with_numpy=getattr(prop, "WITH_NUMPY", False))   # template state: library imported, no operation executed yet
    if getattr(prop, "ISOLATE", False) or os.environ.get("VERIF_INPROCESS_CHUNKS"):
        return _chunk(pid, seed, tier, indices)
    try:
        return run_isolated(_chunk, (pid, seed, tier, indices), timeout=int(os.environ.get("VERIF_CHUNK_TIMEOUT", "600")))
    except HarnessError as e:
        return {"n": 0, "sigs": set(), "probes": {}, "faults": {}, "steps": 0, "samples": [], "viols": [], "stats": {},
                "errors": [f"chunk {indices[0]}..{indices[-1]}: {e}"]}


def batch_replay(pid, batch):
    """Replay runs first..last of one chunk in ONE process (this one) and return the violation of the last run."""
    prop = _load_prop(pid)
    from . import lib as _lib
    _lib.load(with_numpy=getattr(prop, "WITH_NUMPY", False))
    v = None
    for i in range(batch["first"], batch["last"] + 1):
        res = prop.run_one(batch["seed"], i, batch["tier"])
        v = res.get("viol")
        if v and i != batch["last"]:
            return dict(v, msg=f"[already at run {i} of the batch] " + v["msg"])
    return v


def _chunk(pid, seed, tier, indices):
    prop = _load_prop(pid)
    agg = {"n": 0, "sigs": set(), "probes": {}, "faults": {}, "steps": 0, "samples": [], "viols": [], "stats": {},
           "errors": []}
    isolate = getattr(prop, "ISOLATE", False)
    for i in indices:
        try:
            if isolate:
                res = run_isolated(prop.run_one, (seed, i, tier), timeout=getattr(prop, "RUN_TIMEOUT", 60))
            else:
                res = prop.run_one(seed, i, tier)
        except HarnessError as e:
            agg["errors"].append(f"run {i}: {e}")
            continue
        except Exception as e:  # noqa
            agg["errors"].append(f"run {i}: " + "".join(traceback.format_exception(type(e), e, e.__traceback__)))
            continue
        agg["n"] += res.get("evals", 1)
        for s in res.get("sigs", [res.get("sig")] if res.get("sig") else []):
            agg["sigs"].add(s)
        for k, v in res.get("probes", {}).items():
            agg["probes"][k] = agg["probes"].get(k, 0) + v
        for k, v in res.get("faults", {}).items():
            agg["faults"][k] = agg["faults"].get(k, 0) + v
        for k, v in res.get("stats", {}).items():
            agg["stats"][k] = agg["stats"].get(k, 0) + v
        agg["steps"] += res.get("steps", 0)
        if res.get("sample") is not None and len(agg["samples"]) < 2:
            agg["samples"].append(res["sample"])
        for v in res.get("viols", [res["viol"]] if res.get("viol") else []):
            if len(agg["viols"]) < 5:
                v.setdefault("chunk_first", indices[0])
                agg["viols"].append(v)
    return agg


def _merge(tot, a):
    tot["n"] += a["n"]
    tot["sigs"] |= a["sigs"]
    for key in ("probes", "faults", "stats"):
        for k, v in a[key].items():
            tot[key][k] = tot[key].get(k, 0) + v
    tot["steps"] += a["steps"]
    for s in a["samples"]:
        if len(tot["samples"]) < 5:
            tot["samples"].append(s)
    tot["viols"].extend(a["viols"])
    tot["errors"].extend(a["errors"])


def fresh_replay(pid, path, timeout=900):
    """Replay a file in a brand-new interpreter. Returns (violation kind or None, output)."""
    env = dict(os.environ, PYTHONHASHSEED="0")
    p = subprocess.run([sys.executable, "-X", "faulthandler", "-c",
                        "import sys; sys.path.insert(0, %r); from sim.core import runner; runner.replay_main(%r, %r)"
                        % (VERIF, pid, path)],
                       capture_output=True, text=True, timeout=timeout, env=env, cwd=VERIF)
    out = p.stdout + p.stderr
    kind = None
    for line in p.stdout.splitlines():
        if line.startswith("REPLAY-RESULT "):
            d = json.loads(line[len("REPLAY-RESULT "):])
            kind = d.get("kind")
    if p.returncode not in (0, 1):
        raise HarnessError(f"replay of {path} crashed (exit {p.returncode}):\n{out[-2000:]}")
    return kind, out


def replay_main(pid, path):
    prop = _load_prop(pid)
    payload = json.load(open(path))
    if isinstance(payload["replay"], dict) and payload["replay"].get("batch"):
        v = batch_replay(pid, payload["replay"]["batch"])
    else:
        v = prop.replay(payload["replay"])
    if v:
        print("REPLAY-RESULT " + json.dumps({"kind": v["kind"], "msg": v["msg"][:500]}))
        print(f"violation reproduced: {v['kind']}: {v['msg']}")
        sys.exit(1)
    print("REPLAY-RESULT " + json.dumps({"kind": None}))
    print("no violation on replay")
    sys.exit(0)


def load_findings():
    p = os.path.join(VERIF, "known_findings.json")
    if not os.path.exists(p):
        return []
    return json.load(open(p))["findings"]


def lib_digest():
    import hashlib
    from . import lib as _lib
    h = hashlib.sha256()
    root = os.path.join(_lib.REPO, "synced_collections")
    for dp, dn, fn in sorted(os.walk(root)):
        dn.sort()
        for f in sorted(fn):
            if f.endswith(".py"):
                h.update(f.encode())
                h.update(open(os.path.join(dp, f), "rb").read())
    return h.hexdigest()[:16]


def main_check(pid, tier, replay=None):
    t0 = time.time()
    seed = int(os.environ.get("VERIF_SEED", "0"))
    prop = _load_prop(pid)
    if replay:
        payload = json.load(open(replay))
        if isinstance(payload["replay"], dict) and payload["replay"].get("batch"):
            v = batch_replay(pid, payload["replay"]["batch"])
        else:
            v = prop.replay(payload["replay"])
        if v:
            log(f"violation reproduced: {v['kind']}: {v['msg']}")
            log(f"VIOLATION property={pid} replay={replay}")
            return 1
        log("no violation on replay")
        return 0
    nruns = int(os.environ.get("VERIF_RUNS", prop.RUNS[tier]))
    cap_s = float(os.environ.get("VERIF_WALL_CAP", prop.WALL_CAP[tier] if hasattr(prop, "WALL_CAP") else (150 if tier == "quick" else 1500)))
    chunk = getattr(prop, "CHUNK", 50)
    log(f"[{pid}] tier={tier} seed={seed} runs={nruns} workers={NWORKERS} repo={os.environ.get('VERIF_REPO', '/repo')}")
    tot = {"n": 0, "sigs": set(), "probes": {}, "faults": {}, "steps": 0, "samples": [], "viols": [], "stats": {},
           "errors": []}
    findings = [f for f in load_findings() if f["property"] == pid]
    known_lines = []
    excuse = []
    # ---- open findings: replay the committed witness first ------------------------------------------------
    for f in findings:
        if f["status"] != "open":
            continue
        wpath = os.path.join(VERIF, f["witness"])
        kind, out = fresh_replay(pid, wpath)
        if kind is not None and kind == f["match"]["violation"]:
            known_lines.append(f"KNOWN-FINDING: property={pid} {f['id']} {f['what']}")
            excuse.append(f)
        else:
            log(f"[{pid}] note: witness of listed finding {f['id']} no longer fails; it excuses nothing")
    modes = prop.modes(excuse) if hasattr(prop, "modes") else None
    ctx = mp.get_context("fork")
    idx = list(range(nruns))
    chunks = [idx[i:i + chunk] for i in range(0, len(idx), chunk)]
    stopped_early = False
    with ProcessPoolExecutor(max_workers=NWORKERS, mp_context=ctx) as ex:
        futs = [ex.submit(_work, pid, seed, tier, c, modes) for c in chunks]
        try:
            for fu in as_completed(futs, timeout=cap_s + 120):
                if fu.cancelled():
                    continue       # not started before the wall cap: counted as "not executed", never as an error
                try:
                    _merge(tot, fu.result())
                except Exception as e:  # noqa
                    tot["errors"].append(f"worker failed: {e!r}")
                if time.time() - t0 > cap_s and not stopped_early:
                    stopped_early = True
                    for x in futs:
                        x.cancel()
        except Exception as e:  # noqa (timeout)
            tot["errors"].append(f"pool timeout: {e!r}")
            for x in futs:
                x.cancel()
    # ---- violations: minimise, write replay, confirm in a fresh interpreter ---------------------------------
    code = 0
    confirmed = []
    seen_kinds = {}
    rdir = os.path.join(VERIF, "replays") if not os.environ.get("VERIF_NO_EVIDENCE") else "/dev/shm/verif-scratch-replays"
    os.makedirs(rdir, exist_ok=True)
    for v in tot["viols"]:
        key = (v["kind"], v.get("bucket"))
        if seen_kinds.get(key, 0) >= 2:
            continue
        seen_kinds[key] = seen_kinds.get(key, 0) + 1
        try:
            payload = v["replay"]
            if hasattr(prop, "minimise"):
                payload = prop.minimise(payload, v)
            name = f"{pid}-{_digest(payload)}.json"
            path = os.path.join(rdir, name)
            with open(path, "w") as f:
                json.dump({"property": pid, "violation": v["kind"], "message": v["msg"], "seed": seed,
                           "run_index": v.get("index"), "lib_digest": lib_digest(), "replay": payload}, f, indent=1,
                          default=repr)
            kind, out = fresh_replay(pid, path)
            if kind is None and not getattr(prop, "ISOLATE", False) and v.get("index") is not None and v.get("chunk_first") is not None:
                # not reproducible on its own: does it depend on what the process executed before (the earlier runs of its
                # chunk)?  Then the counter-example is that HISTORY: replay the runs chunk_first..index in one fresh process.
                os.remove(path)
                bpayload = {"batch": {"seed": seed, "tier": tier, "first": v["chunk_first"], "last": v["index"]}}
                name = f"{pid}-{_digest(bpayload)}.json"
                path = os.path.join(rdir, name)
                v = dict(v, msg=f"[depends on the process history: reproduces only after runs {v['chunk_first']}..{v['index'] - 1} of the "
                                f"same seed were executed in the same process] " + v["msg"])
                with open(path, "w") as f:
                    json.dump({"property": pid, "violation": v["kind"], "message": v["msg"], "seed": seed, "run_index": v.get("index"),
                               "lib_digest": lib_digest(), "replay": bpayload}, f, indent=1, default=repr)
                kind, out = fresh_replay(pid, path)
                payload = bpayload
            if kind is None:
                tot["errors"].append(f"violation {v['kind']} (run {v.get('index')}) did not reproduce from {path} "
                                     f"in a fresh interpreter: {v['msg'][:300]}")
                continue
            matched = None
            for f in excuse:
                if hasattr(prop, "match_finding") and prop.match_finding(f, payload, {"kind": kind, "msg": v["msg"]}):
                    matched = f
                    break
            if matched:
                log(f"[{pid}] violation {kind} matches listed finding {matched['id']} ({path})")
                os.remove(path)
                continue
            confirmed.append((kind, path, v["msg"]))
        except HarnessError as e:
            tot["errors"].append(str(e))
    for l in known_lines:
        log(l)
    for kind, path, msg in confirmed:
        log(f"[{pid}] {kind}: {msg[:600]}")
        log(f"VIOLATION property={pid} replay={path}")
        code = 1
    # ---- workload probes that must be non-zero ----------------------------------------------------------------
    for p in getattr(prop, "EXPECT_PROBES", {}).get(tier, []):
        if tot["probes"].get(p, 0) == 0 and not confirmed and tot["n"] > 0 and not stopped_early:
            tot["errors"].append(f"workload probe {p} is zero: the workload no longer reaches it")
    wall = time.time() - t0
    write_evidence(prop, pid, tier, seed, tot, wall, len(confirmed), [f["id"] for f in excuse], stopped_early, nruns)
    if tot["errors"]:
        for e in tot["errors"][:10]:
            log(f"HARNESS-ERROR [{pid}] {e}")
        if code == 0:
            code = 2
    log(f"[{pid}] done: runs={tot['n']} distinct_nontrivial={len(tot['sigs'])} violations={len(confirmed)} "
        f"wall={wall:.1f}s exit={code}")
    return code


def _digest(o):
    import hashlib
    return hashlib.sha256(json.dumps(o, sort_keys=True, default=repr).encode()).hexdigest()[:12]


def _uncovered():
    try:
        from . import lib as _lib, model as _M
        u = _M.uncovered_entry_points(_lib.load())
    except Exception as e:  # noqa
        return [f"(could not be computed: {e!r})"]
    if u:
        log("WARNING: public entry points that no generator addresses: " + ", ".join(u))
    return u


def write_evidence(prop, pid, tier, seed, tot, wall, nviol, known, stopped_early, planned):
    cov = {
        "evaluations": tot["n"],
        "distinct_nontrivial": len(tot["sigs"]),
        "rule": prop.RULE,
        "samples": tot["samples"][:5] or ["(no sample recorded)"],
        "planned_runs": planned,
        "stopped_early_by_wall_cap": stopped_early,
        "runs_per_hour": int(tot["n"] / wall * 3600) if wall > 0 else 0,
        "seeds": {"base_seed": seed, "run_indices": [0, planned - 1], "derivation": "sha256(seed/property/index/stream)"},
        "sim_steps": tot["steps"],
        "simulated_time": "logical steps only: the library reads no clock except file mtime, which the outside writer "
                          "advances by 1 ms per rewrite",
        "faults_injected": tot["faults"],
        "probes": tot["probes"],
        "stats": tot["stats"],
        "components": getattr(prop, "COMPONENTS", {}),
        "known_findings_seen": known,
        "uncovered_entry_points": _uncovered(),
        "engine": getattr(prop, "ENGINE", "seqsim"),
    }
    if hasattr(prop, "extra_coverage"):
        cov.update(prop.extra_coverage(tot))
    ev = {"property_id": pid, "tier": tier, "seed": seed, "level": prop.LEVEL, "coverage": cov,
          "assumptions": getattr(prop, "ASSUMPTIONS", []), "wall_s": round(wall, 2), "violations": nviol}
    if os.environ.get("VERIF_NO_EVIDENCE"):
        return
    os.makedirs(os.path.join(VERIF, "evidence"), exist_ok=True)
    with open(os.path.join(VERIF, "evidence", f"{pid}.json"), "w") as f:
        json.dump(ev, f, indent=1, default=repr)


# ---------------------------------------------------------------------------------------------------------
# generic delta debugging over a list

def ddmin(items, test, max_tests=400):
    """Return a 1-minimal sublist for which test(sublist) is True (test(items) must be True)."""
    n = 2
    tests = [0]

    def t(x):
        tests[0] += 1
        return test(x)
    items = list(items)
    while len(items) >= 2 and tests[0] < max_tests:
        size = max(1, len(items) // n)
        subsets = [items[i:i + size] for i in range(0, len(items), size)]
        reduced = False
        for i in range(len(subsets)):
            comp = [x for j, s in enumerate(subsets) if j != i for x in s]
            if t(comp):
                items = comp
                n = max(n - 1, 2)
                reduced = True
                break
        if not reduced:
            if n >= len(items):
                break
            n = min(len(items), n * 2)
    # final single-step pass
    i = 0
    while i < len(items) and tests[0] < max_tests:
        comp = items[:i] + items[i + 1:]
        if comp and t(comp):
            items = comp
        else:
            i += 1
    return items
