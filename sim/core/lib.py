"""Import the library under test from the configured repo root with simulated locks, and reset class-level
state between runs ("world reset")."""
import gc
import os
import sys

from . import simlock

REPO = os.path.realpath(os.environ.get("VERIF_REPO", "/repo"))
STUB_SITE = os.path.join(os.path.dirname(os.path.dirname(os.path.abspath(__file__))), "stubs", "site")

L = None  # namespace filled by load()


class _NS:
    pass


def load(with_numpy=False):
    """Import synced_collections from REPO. Idempotent."""
    global L
    if L is not None:
        return L
    # stdlib modules the library uses are imported first so that only the library binds the simulated RLock
    import collections.abc  # noqa
    import errno  # noqa
    import hashlib  # noqa
    import inspect  # noqa
    import json  # noqa
    import logging  # noqa
    import threading
    import typing  # noqa
    import uuid  # noqa
    import warnings  # noqa
    import abc  # noqa
    import copy  # noqa
    if with_numpy:
        deps = os.path.join(os.path.dirname(os.path.dirname(os.path.dirname(os.path.abspath(__file__)))), ".deps", "numpy")
        if os.path.isdir(deps) and deps not in sys.path:
            sys.path.append(deps)
            try:
                import numpy  # noqa
            except Exception:
                sys.path.remove(deps)
    for p in (STUB_SITE, REPO):
        if p in sys.path:
            sys.path.remove(p)
    sys.path[0:0] = [REPO, STUB_SITE]
    for m in list(sys.modules):
        if m == "synced_collections" or m.startswith("synced_collections."):
            raise RuntimeError("synced_collections imported before sim.core.lib.load()")
    real = threading.RLock
    threading.RLock = simlock.SimRLock
    try:
        import synced_collections
        from synced_collections import errors, utils, validators
        from synced_collections.backends import collection_json as cj
        from synced_collections.backends import collection_mongodb as cm
        from synced_collections.backends import collection_redis as cr
        from synced_collections.backends import collection_zarr as cz
        from synced_collections.buffers import file_buffered_collection as fbc
        from synced_collections.data_types import synced_collection as scm
        from synced_collections.data_types.attr_dict import AttrDict
    finally:
        threading.RLock = real
    f = os.path.realpath(synced_collections.__file__)
    if not f.startswith(REPO + os.sep):
        raise RuntimeError(f"synced_collections imported from {f}, not from {REPO}")
    ns = _NS()
    ns.pkg = synced_collections
    ns.libdir = os.path.dirname(f)
    ns.errors, ns.utils, ns.validators = errors, utils, validators
    ns.cj, ns.cm, ns.cr, ns.cz, ns.fbc, ns.scm = cj, cm, cr, cz, fbc, scm
    ns.AttrDict = AttrDict
    ns.SyncedCollection = synced_collections.SyncedCollection
    ns.SyncedDict = synced_collections.SyncedDict
    ns.SyncedList = synced_collections.SyncedList
    # families: name -> (dict class, list class, traits)
    fam = {}
    for pre, buffered, strategy in (("JSON", False, None), ("BufferedJSON", True, "serialized"),
                                    ("MemoryBufferedJSON", True, "memory")):
        fam[pre] = dict(d=getattr(cj, pre + "Dict"), l=getattr(cj, pre + "List"), store="file", attr=False,
                        buffered=buffered, strategy=strategy)
        fam[pre + "Attr"] = dict(d=getattr(cj, pre + "AttrDict"), l=getattr(cj, pre + "AttrList"), store="file",
                                 attr=True, buffered=buffered, strategy=strategy)
    fam["Redis"] = dict(d=cr.RedisDict, l=cr.RedisList, store="redis", attr=False, buffered=False, strategy=None)
    fam["MongoDB"] = dict(d=cm.MongoDBDict, l=cm.MongoDBList, store="mongo", attr=False, buffered=False, strategy=None)
    fam["Zarr"] = dict(d=cz.ZarrDict, l=cz.ZarrList, store="zarr", attr=False, buffered=False, strategy=None)
    ns.families = fam
    ns.json_families = [k for k, v in fam.items() if v["store"] == "file"]
    ns.buffered_families = [k for k, v in fam.items() if v["buffered"]]
    ns.stub_families = ["Redis", "MongoDB", "Zarr"]
    ns.initial = _snapshot_class_state(ns)
    L = ns
    return ns


def all_classes(ns):
    out, todo = [], [ns.SyncedCollection]
    seen = set()
    while todo:
        c = todo.pop()
        if c in seen:
            continue
        seen.add(c)
        out.append(c)
        todo.extend(c.__subclasses__())
    out.sort(key=lambda c: (c.__module__, c.__qualname__))
    return out


def _snapshot_class_state(ns):
    snap = {}
    for c in all_classes(ns):
        d = c.__dict__
        snap[c] = {
            "cap": d.get("_BUFFER_CAPACITY", _NS),
            "threading": d.get("_threading_support_is_active", _NS),
            "keys": set(d),      # which class attributes the class itself defines at import time (others are inherited)
            # ... and of which TYPE the mutable ones are (a fresh value of the same type is installed by the reset: a plain
            # dict in place of, say, a WeakValueDictionary would change the library's behaviour)
            "types": {a: type(d[a]) for a in ("_buffer", "_buffered_collections") if a in d},
        }
    return snap


def resolvers():
    ns = L
    return [o for o in gc.get_objects() if type(o) is ns.utils.AbstractTypeResolver]


_RESOLVERS = None


def world_reset(clear_type_maps=True):
    """Restore every piece of class-level / module-level state of the library to its import-time value."""
    global _RESOLVERS
    ns = L
    simlock.reset_registry()
    for c in all_classes(ns):
        d = c.__dict__
        init = ns.initial.get(c)
        if init is None:
            continue
        if "_locks" in d:
            c._locks = {}
            c._cls_lock = simlock.SimRLock()
        # restore exactly the import-time layout: an attribute the class did not define itself at import time is removed
        # again (it then reads its parent's value, as after a fresh import), one it did define gets a fresh empty value
        for attr, fresh_value in (("_buffer", dict), ("_CURRENT_BUFFER_SIZE", int), ("_buffered_collections", dict)):
            if attr in init.get("keys", ()):
                setattr(c, attr, init.get("types", {}).get(attr, fresh_value)())
            elif attr in c.__dict__:
                try:
                    delattr(c, attr)
                except AttributeError:
                    pass
        ctx = d.get("_buffer_context")
        if ctx is not None:
            ctx._count = 0
            if hasattr(ctx, "_original_buffer_capacitys"):
                ctx._original_buffer_capacitys = []
                ctx._buffer_capacity = None
        if init["cap"] is _NS:
            if "_BUFFER_CAPACITY" in d:
                try:
                    delattr(c, "_BUFFER_CAPACITY")
                except AttributeError:
                    pass
        else:
            c._BUFFER_CAPACITY = init["cap"]
        if init["threading"] is not _NS:
            if getattr(c, "_supports_threading", False) and init["threading"]:
                c.enable_multithreading()
            else:
                c.disable_multithreading()
    if clear_type_maps:
        if _RESOLVERS is None:
            _RESOLVERS = resolvers()
        for r in _RESOLVERS:
            r.type_map.clear()


def lock_labels():
    """Give every library lock a readable label (for reports)."""
    ns = L
    for c in all_classes(ns):
        d = c.__dict__
        if "_locks" in d:
            for k, l in c._locks.items():
                if isinstance(l, simlock.SimRLock):
                    l.label = f"{c.__name__}.file[{os.path.basename(str(k))}]"
            if isinstance(d.get("_cls_lock"), simlock.SimRLock):
                c._cls_lock.label = f"{c.__name__}._cls_lock"
        if isinstance(d.get("_BUFFER_LOCK"), simlock.SimRLock):
            c._BUFFER_LOCK.label = f"{c.__name__}._BUFFER_LOCK"
